//! C03 - a party's view reveals nothing beyond its own inputs and outputs.
//! Exhaustive enumeration of the random-tape space of the real compiled graph with the PRF idealised as a
//! table of independent uniform entries (one per (key, counter, type)), three-party execution under E1.
use crate::common::{hash_bytes, Report};
use crate::exec::{new_eval, run_three, Oracle, PVal, Plan};
use crate::mpcx::{self, Owner};
use crate::vals;
use ciphercore_base::data_types::{array_type, scalar_type, Type, BIT, UINT8};
use ciphercore_base::data_values::Value;
use ciphercore_base::graphs::{create_context, Context, Graph, Node, Operation, SliceElement};
use ciphercore_base::inline::inline_ops::InlineMode;
use rayon::prelude::*;
use serde_json::{json, Value as J};
use std::collections::{BTreeMap, HashMap, HashSet};

type EntryKey = (Vec<u8>, u64, String);

fn key_label(party: usize, idx: usize) -> Vec<u8> {
    let mut b = vec![0xEEu8; 16];
    b[0] = party as u8 + 1;
    b[1] = (idx & 0xFF) as u8;
    b[2] = (idx >> 8) as u8;
    b
}

/// Scripted randomness: Random key nodes get distinct labels per (party, node); PRF outputs come from a table.
struct Scripted<'a> {
    table: &'a HashMap<EntryKey, Value>,
    /// discovery: (entry, party, node index)
    record: Option<Vec<(EntryKey, usize, usize)>>,
    unsupported: bool,
}

impl<'a> Oracle for Scripted<'a> {
    fn random(&mut self, party: usize, idx: usize, t: &Type) -> Option<Value> {
        if *t == array_type(vec![128], BIT) {
            Some(Value::from_bytes(key_label(party, idx)))
        } else {
            self.unsupported = true;
            Some(Value::zero_of_type(t.clone()))
        }
    }
    fn prf(&mut self, party: usize, idx: usize, key: &[u8], iv: u64, t: &Type) -> Option<Value> {
        let ek = (key.to_vec(), iv, format!("{}", t));
        if let Some(r) = self.record.as_mut() {
            r.push((ek.clone(), party, idx));
        }
        Some(self.table.get(&ek).cloned().unwrap_or_else(|| Value::zero_of_type(t.clone())))
    }
    fn perm_prf(&mut self, _p: usize, _i: usize, _k: &[u8], _iv: u64, _n: u64) -> Option<Value> {
        self.unsupported = true;
        None
    }
    fn random_perm(&mut self, _p: usize, _i: usize, _n: u64) -> Option<Value> {
        self.unsupported = true;
        None
    }
}

/// all values of a bit / u8 scalar or small array type
fn domain(t: &Type) -> Option<Vec<Value>> {
    match t {
        Type::Scalar(st) | Type::Array(_, st) => {
            let n = vals::num_elems(t);
            let bits = vals::st_bits(st) as usize * n;
            if bits > 8 {
                return None;
            }
            let per = 1u128 << vals::st_bits(st);
            let total = 1usize << bits;
            Some(
                (0..total)
                    .map(|m| {
                        let mut e = vec![];
                        let mut mm = m as u128;
                        for _ in 0..n {
                            e.push(mm % per);
                            mm /= per;
                        }
                        vals::arr_value(&e, st)
                    })
                    .collect(),
            )
        }
        _ => None,
    }
}

fn view_hash(view: &[PVal]) -> u128 {
    let mut buf: Vec<u8> = Vec::with_capacity(view.len() * 8);
    for (i, pv) in view.iter().enumerate() {
        buf.extend_from_slice(&(i as u32).to_le_bytes());
        match pv.val() {
            Some(v) => vals::key(&v, &mut buf),
            None => buf.push(0xFD),
        }
    }
    let h1 = hash_bytes(&buf);
    buf.push(0x77);
    let h2 = hash_bytes(&buf);
    ((h1 as u128) << 64) | h2 as u128
}

type BuildFn = std::sync::Arc<dyn Fn(&Graph) -> ciphercore_base::errors::Result<Node> + Send + Sync>;

pub struct Family {
    pub name: String,
    pub build: BuildFn,
    pub n_inputs: usize,
    /// chains run on a reduced configuration set
    pub chain: bool,
}

fn fam(name: &str, n_inputs: usize, f: impl Fn(&Graph) -> ciphercore_base::errors::Result<Node> + Send + Sync + 'static) -> Family {
    Family { name: name.to_string(), build: std::sync::Arc::new(f), n_inputs, chain: false }
}

/// left-deep chains ((l0 o1 l1) o2 l2) o3 l3 over bit inputs with exactly `mults` multiplications, every input used
fn chain_families(n_vars: usize, mults: usize) -> Vec<Family> {
    let mut out = vec![];
    let names = ["x", "y", "z"];
    let n_seq = n_vars.pow(4);
    for ops in 0..8usize {
        if (ops as u32).count_ones() as usize != mults {
            continue;
        }
        for seq in 0..n_seq {
            let l: Vec<usize> = (0..4).map(|i| seq / n_vars.pow(i as u32) % n_vars).collect();
            if (0..n_vars).any(|v| !l.contains(&v)) {
                continue;
            }
            if l[0] > l[1] {
                continue; // the first operation is commutative
            }
            let o: Vec<bool> = (0..3).map(|i| ops >> i & 1 == 1).collect();
            let sym = |b: bool| if b { "*" } else { "+" };
            let name = format!("chain:(({}{}{}){}{}){}{}", names[l[0]], sym(o[0]), names[l[1]], sym(o[1]), names[l[2]], sym(o[2]), names[l[3]]);
            let (l2, o2) = (l.clone(), o.clone());
            let mut f = fam(&name, n_vars, move |g| {
                let ins: Vec<Node> = (0..n_vars).map(|_| in_bit(g)).collect::<ciphercore_base::errors::Result<Vec<_>>>()?;
                let mut e = ins[l2[0]].clone();
                for i in 0..3 {
                    let rhs = ins[l2[i + 1]].clone();
                    e = if o2[i] { e.multiply(rhs)? } else { e.add(rhs)? };
                }
                Ok(e)
            });
            f.chain = true;
            out.push(f);
        }
    }
    out
}

fn in_bit(g: &Graph) -> ciphercore_base::errors::Result<Node> {
    g.input(scalar_type(BIT))
}
fn in_bit2(g: &Graph) -> ciphercore_base::errors::Result<Node> {
    g.input(array_type(vec![2], BIT))
}

fn families(thorough: bool) -> Vec<Family> {
    let mut v: Vec<Family> = vec![
        fam("x", 1, |g| in_bit(g)),
        fam("x+y", 2, |g| in_bit(g)?.add(in_bit(g)?)),
        fam("x*y", 2, |g| in_bit(g)?.multiply(in_bit(g)?)),
        fam("x*x", 1, |g| {
            let x = in_bit(g)?;
            x.multiply(x.clone())
        }),
        fam("(x*y)+z", 3, |g| in_bit(g)?.multiply(in_bit(g)?)?.add(in_bit(g)?)),
        fam("(x*y)*z", 3, |g| in_bit(g)?.multiply(in_bit(g)?)?.multiply(in_bit(g)?)),
        fam("x*y+x*z", 3, |g| {
            let x = in_bit(g)?;
            let y = in_bit(g)?;
            let z = in_bit(g)?;
            x.multiply(y)?.add(x.multiply(z)?)
        }),
    ];
    // three-operation chains: local operations stacked on a product (the resharing planner's postponement logic)
    v.extend(chain_families(2, 1));
    if thorough {
        v.extend(chain_families(2, 2));
        v.extend(chain_families(3, 1));
        v.push(fam("dot(x2,y2)", 2, |g| in_bit2(g)?.dot(in_bit2(g)?)));
        v.push(fam("(x2*y2)[0]", 2, |g| in_bit2(g)?.multiply(in_bit2(g)?)?.get_slice(vec![SliceElement::SingleIndex(0)])));
        v.push(fam("sum(x2*y2)", 2, |g| in_bit2(g)?.multiply(in_bit2(g)?)?.sum(vec![0])));
        v.push(fam("x2*y2 (array out)", 2, |g| in_bit2(g)?.multiply(in_bit2(g)?)));
    }
    v
}

/// 8-bit linear family (one mask byte per message)
fn families_u8() -> Vec<Family> {
    fn in8(g: &Graph) -> ciphercore_base::errors::Result<Node> {
        g.input(scalar_type(UINT8))
    }
    vec![
        fam("u8:x", 1, |g| in8(g)),
        fam("u8:x+y", 2, |g| in8(g)?.add(in8(g)?)),
        fam("u8:x-y", 2, |g| in8(g)?.subtract(in8(g)?)),
    ]
}

fn build_ctx(f: &Family) -> Context {
    let c = create_context().unwrap();
    let g = c.create_graph().unwrap();
    let o = (f.build)(&g).unwrap();
    o.set_as_output().unwrap();
    g.finalize().unwrap();
    c.set_main_graph(g).unwrap();
    c.finalize().unwrap();
    c
}

struct Outcome {
    executions: u64,
    tapes: u64,
    real_entries: usize,
    junk_entries_enumerated: usize,
    leak: Option<(usize, String)>,
    skipped: Option<String>,
    groups_compared: u64,
    distinct_views: u64,
}

/// Executes every (tape, input) combination once and compares, for each observer, the view multisets.
/// `fixed_known`: if Some(values), entries computable by the observer are not enumerated but fixed to each of these
/// byte patterns in turn (sound: privacy must hold for every value of the observer's own randomness) - then one
/// observer at a time.
fn analyse(ctx: &Context, owners: &[Owner], outs: &[u8], cap_bits: u32, input_alphabet: Option<&[u128]>, observers: &[usize], fix_known: Option<&[u8]>) -> Outcome {
    let mut oc = Outcome { executions: 0, tapes: 0, real_entries: 0, junk_entries_enumerated: 0, leak: None, skipped: None, groups_compared: 0, distinct_views: 0 };
    let compiled = match mpcx::compile(ctx, owners, outs, &InlineMode::Simple) {
        Ok(c) => c,
        Err(e) => {
            oc.skipped = Some(format!("compile: {}", e));
            return oc;
        }
    };
    let plan = Plan::of_context(&compiled).unwrap();
    let types = mpcx::input_types(ctx);
    // ---- input assignments ----
    let doms: Vec<Vec<Value>> = types
        .iter()
        .map(|t| match input_alphabet {
            Some(a) => a.iter().map(|x| vals::arr_value(&[*x], &t.get_scalar_type())).collect(),
            None => domain(t).unwrap(),
        })
        .collect();
    // shares of Shared inputs are part of the tape: (s0, s1) enumerated over the input's domain (bit family only)
    let shared_idx: Vec<usize> = (0..types.len()).filter(|i| owners[*i] == Owner::Shared).collect();
    if input_alphabet.is_some() && !shared_idx.is_empty() {
        oc.skipped = Some("shared inputs not enumerated in the 8-bit family".into());
        return oc;
    }
    // ---- discovery run ----
    let empty = HashMap::new();
    let mut disc = Scripted { table: &empty, record: Some(vec![]), unsupported: false };
    let zero_inputs: Vec<Value> = types.iter().map(|t| Value::zero_of_type(t.clone())).collect();
    let pi = mpcx::party_inputs(&types, owners, &zero_inputs, &mut || 0, &mut || 0);
    let mut evs = [new_eval(1), new_eval(2), new_eval(3)];
    let _ = run_three(&plan, &pi, &mut evs, &mut disc);
    if disc.unsupported {
        oc.skipped = Some("protocol draws randomness this check does not script (non-key Random / permutations)".into());
        return oc;
    }
    let rec = disc.record.take().unwrap();
    let mut users: BTreeMap<EntryKey, HashSet<usize>> = BTreeMap::new();
    let mut entry_nodes: BTreeMap<EntryKey, Vec<(usize, usize)>> = BTreeMap::new();
    for (ek, p, idx) in rec {
        users.entry(ek.clone()).or_default().insert(p);
        entry_nodes.entry(ek).or_default().push((p, idx));
    }
    // junk-key entries of a party that statically reach a Send from that party: enumerated too (empty on a correct tree)
    let mut tainted_entries: HashSet<EntryKey> = HashSet::new();
    for p in 0..3 {
        let mut taint: Vec<HashSet<EntryKey>> = vec![HashSet::new(); plan.nodes.len()];
        for (i, pn) in plan.nodes.iter().enumerate() {
            let mut s: HashSet<EntryKey> = HashSet::new();
            for d in pn.deps.iter() {
                for e in taint[*d].iter() {
                    s.insert(e.clone());
                }
            }
            for (ek, u) in users.iter() {
                if u.len() == 1 && entry_nodes[ek].contains(&(p, i)) {
                    s.insert(ek.clone());
                }
            }
            for (snd, _rcv) in pn.sends.iter() {
                if *snd == p {
                    for e in s.iter() {
                        tainted_entries.insert(e.clone());
                    }
                }
            }
            // after a Send to p the value is the sender's: its taint for p's private junk is cleared
            if pn.sends.iter().any(|(_, rcv)| *rcv == p) {
                s.clear();
            }
            taint[i] = s;
        }
    }
    let mut enumerated: Vec<(EntryKey, Vec<Value>, HashSet<usize>)> = vec![];
    for (ek, u) in users.iter() {
        let is_real = u.len() >= 2;
        if is_real || tainted_entries.contains(ek) {
            // the type is recoverable from a node that uses the entry
            let (_, idx) = entry_nodes[ek][0];
            let t = plan.nodes[idx].ty.clone();
            let d = match domain(&t) {
                Some(d) => d,
                None => {
                    oc.skipped = Some(format!("PRF entry of type {} too wide to enumerate", t));
                    return oc;
                }
            };
            if is_real {
                oc.real_entries += 1;
            } else {
                oc.junk_entries_enumerated += 1;
            }
            enumerated.push((ek.clone(), d, u.clone()));
        }
    }
    // without fixed entries one sweep serves all observers; with them each observer has its own partition
    let obs_groups: Vec<Vec<usize>> = if fix_known.is_some() { observers.iter().map(|o| vec![*o]).collect() } else { vec![observers.to_vec()] };
    for group in obs_groups.iter() {
        let obs = group[0];
        // entries the observer can compute itself
        let (known, unknown): (Vec<_>, Vec<_>) = enumerated.iter().cloned().partition(|e| fix_known.is_some() && e.2.contains(&obs));
        let known_settings: Vec<Option<u8>> = match fix_known {
            Some(v) => v.iter().map(|b| Some(*b)).collect(),
            None => vec![None],
        };
        let mut bits = 0f64;
        for e in unknown.iter() {
            bits += (e.1.len() as f64).log2();
        }
        for _ in shared_idx.iter() {
            bits += 2.0 * (doms[0].len() as f64).log2();
        }
        if std::env::var("VERIF_DRY").is_ok() {
            let n_inputs: f64 = doms.iter().map(|d| d.len() as f64).product();
            oc.executions += (2f64.powf(bits) * n_inputs * known_settings.len() as f64) as u64;
            oc.tapes = 2f64.powf(bits) as u64;
            continue;
        }
        if bits > cap_bits as f64 {
            oc.skipped = Some(format!("tape space 2^{:.0} above the cap 2^{}", bits, cap_bits));
            return oc;
        }
        for ks in known_settings.iter() {
            // per input assignment: multiset of views
            let n_in = types.len();
            // all input assignments (mixed radix), processed in parallel, merged in enumeration order
            let mut all_idx: Vec<Vec<usize>> = vec![];
            {
                let mut in_idx = vec![0usize; n_in];
                loop {
                    all_idx.push(in_idx.clone());
                    let mut carry = true;
                    for i in 0..n_in {
                        if carry {
                            in_idx[i] += 1;
                            if in_idx[i] == doms[i].len() {
                                in_idx[i] = 0;
                            } else {
                                carry = false;
                            }
                        }
                    }
                    if carry {
                        break;
                    }
                }
            }
            let per_input: Vec<(Vec<usize>, Vec<Option<Vec<u8>>>, Vec<HashMap<u128, u32>>, u64)> = all_idx
                .par_iter()
                .map(|in_idx| {
                    let mut execs = 0u64;
                let plain: Vec<Value> = (0..n_in).map(|i| doms[i][in_idx[i]].clone()).collect();
                let mut multiset: Vec<HashMap<u128, u32>> = vec![HashMap::new(); group.len()];
                let mut obs_out: Vec<Option<Vec<u8>>> = vec![None; group.len()];
                // enumerate tapes
                let mut t_idx = vec![0usize; unknown.len()];
                let mut sh_idx = vec![0usize; shared_idx.len() * 2];
                loop {
                    let mut table: HashMap<EntryKey, Value> = HashMap::new();
                    for (j, e) in unknown.iter().enumerate() {
                        table.insert(e.0.clone(), e.1[t_idx[j]].clone());
                    }
                    if let Some(b) = ks {
                        for (j, e) in known.iter().enumerate() {
                            let bb = b.wrapping_mul(j as u8 * 2 + 1).wrapping_add(j as u8 * 29);
                            let d = &e.1;
                            table.insert(e.0.clone(), d[bb as usize % d.len()].clone());
                        }
                    }
                    // party inputs with scripted shares
                    let mut pi: [Vec<Value>; 3] = [vec![], vec![], vec![]];
                    for i in 0..n_in {
                        match owners[i] {
                            Owner::Public => {
                                for p in 0..3 {
                                    pi[p].push(plain[i].clone());
                                }
                            }
                            Owner::P(q) => {
                                for p in 0..3 {
                                    pi[p].push(if p == q as usize { plain[i].clone() } else { Value::zero_of_type(types[i].clone()) });
                                }
                            }
                            Owner::Shared => {
                                let k = shared_idx.iter().position(|x| *x == i).unwrap();
                                let s0 = doms[i][sh_idx[2 * k]].clone();
                                let s1 = doms[i][sh_idx[2 * k + 1]].clone();
                                // s2 = x - s0 - s1
                                let t = &types[i];
                                let st = t.get_scalar_type();
                                let m = vals::st_mask(&st);
                                let xe = vals::arr_elems(&plain[i], t).unwrap();
                                let a = vals::arr_elems(&s0, t).unwrap();
                                let b = vals::arr_elems(&s1, t).unwrap();
                                let s2e: Vec<u128> = (0..xe.len()).map(|j| xe[j].wrapping_sub(a[j]).wrapping_sub(b[j]) & m).collect();
                                let s = [s0, s1, vals::arr_value(&s2e, &st)];
                                for p in 0..3 {
                                    let slots: Vec<Value> = (0..3).map(|kk| if kk == p || kk == (p + 1) % 3 { s[kk].clone() } else { Value::zero_of_type(t.clone()) }).collect();
                                    pi[p].push(Value::from_vector(slots));
                                }
                            }
                        }
                    }
                    let mut oracle = Scripted { table: &table, record: None, unsupported: false };
                    let mut evs = [new_eval(1), new_eval(2), new_eval(3)];
                    let run = run_three(&plan, &pi, &mut evs, &mut oracle);
                    execs += 1;
                    for (gi, &ob) in group.iter().enumerate() {
                        *multiset[gi].entry(view_hash(&run.vals[ob])).or_insert(0) += 1;
                        if obs_out[gi].is_none() {
                            let mut k = vec![];
                            if outs.contains(&(ob as u8)) {
                                match run.vals[ob][plan.output].val() {
                                    Some(v) => vals::key(&v, &mut k),
                                    None => k.push(0xFD),
                                }
                            }
                            obs_out[gi] = Some(k);
                        }
                    }
                    // next tape
                    let mut carry = true;
                    for j in 0..t_idx.len() {
                        if carry {
                            t_idx[j] += 1;
                            if t_idx[j] == unknown[j].1.len() {
                                t_idx[j] = 0;
                            } else {
                                carry = false;
                            }
                        }
                    }
                    if carry {
                        for j in 0..sh_idx.len() {
                            if carry {
                                sh_idx[j] += 1;
                                if sh_idx[j] == doms[shared_idx[j / 2]].len() {
                                    sh_idx[j] = 0;
                                } else {
                                    carry = false;
                                }
                            }
                        }
                    }
                    if carry {
                        break;
                    }
                }
                    (in_idx.clone(), obs_out, multiset, execs)
                })
                .collect();
            let mut results: Vec<(Vec<usize>, Vec<Option<Vec<u8>>>, Vec<HashMap<u128, u32>>)> = vec![];
            for (ii, oo, ms, ex) in per_input {
                oc.executions += ex;
                oc.tapes = ms[0].values().map(|c| *c as u64).sum();
                oc.distinct_views += ms.iter().map(|m| m.len() as u64).sum::<u64>();
                results.push((ii, oo, ms));
            }
            // compare: same own inputs (owned by observer or public) and same own output => same view multiset
            for (gi, &obs) in group.iter().enumerate() {
                let own: Vec<usize> = (0..n_in).filter(|i| owners[*i] == Owner::P(obs as u8) || owners[*i] == Owner::Public).collect();
                for a in 0..results.len() {
                    for b in (a + 1)..results.len() {
                        if own.iter().all(|i| results[a].0[*i] == results[b].0[*i]) && results[a].1[gi] == results[b].1[gi] {
                            oc.groups_compared += 1;
                            if results[a].2[gi] != results[b].2[gi] && oc.leak.is_none() {
                                oc.leak = Some((obs, format!(
                                    "observer {}: inputs {:?} and {:?} (indices into each input's domain) give the same own inputs/output but different view distributions over {} tapes ({} vs {} distinct views)",
                                    obs, results[a].0, results[b].0, oc.tapes, results[a].2[gi].len(), results[b].2[gi].len())));
                            }
                        }
                    }
                }
            }
        }
    }
    oc
}

fn owner_subset(n: usize, thorough: bool) -> Vec<Vec<Owner>> {
    let all = mpcx::owner_vectors(n);
    if n <= 2 || thorough {
        if n == 3 && thorough {
            // 3 inputs: vectors with at most one repeated party owner + a covering set
            return all.into_iter().filter(|v| { let mut c = [0; 5]; for o in v { c[Owner::ALL.iter().position(|x| x == o).unwrap()] += 1; } c.iter().all(|k| *k <= 2) && c[4] <= 1 }).collect();
        }
        return all;
    }
    use Owner::*;
    vec![vec![P(0), P(1), P(2)], vec![P(1), P(1), P(0)], vec![P(2), Public, P(0)], vec![Shared, P(0), P(1)], vec![P(0), P(0), P(0)], vec![P(2), P(1), Shared]]
}

pub fn run(r: &Report) -> i32 {
    let thorough = r.tier.thorough();
    let cap = if thorough { 22 } else { 16 };
    let mut tasks: Vec<(usize, bool, Vec<Owner>, Vec<u8>)> = vec![];
    let mut unsorted_cfgs = 0u64;
    let fams = families(thorough);
    let fams8 = families_u8();
    use Owner::*;
    for (fi, f) in fams.iter().enumerate() {
        // quick: 1- and 2-input families with the full owner x output cross; 3-input families on a few configurations
        let small: Vec<(Vec<Owner>, Vec<u8>)> = vec![
            (vec![P(0), P(1), P(2)], vec![0]),
            (vec![P(1), P(1), P(0)], vec![]),
            (vec![P(2), Public, P(0)], vec![1, 2]),
            (vec![Shared, P(0), P(1)], vec![2]),
        ];
        if f.chain {
            let ovs: Vec<Vec<Owner>> = if f.n_inputs == 2 {
                vec![vec![P(0), P(1)], vec![P(1), P(2)], vec![P(2), P(0)], vec![P(1), P(1)]]
            } else {
                vec![vec![P(0), P(1), P(2)], vec![P(2), P(2), P(0)]]
            };
            for ov in ovs {
                for outs in [vec![0u8], vec![2], vec![]] {
                    tasks.push((fi, false, ov.clone(), outs));
                }
            }
            continue;
        }
        if f.n_inputs == 3 && !thorough {
            let k = if f.name == "(x*y)*z" { 1 } else { 3 };
            for (ov, outs) in small.into_iter().take(k) {
                tasks.push((fi, false, ov, outs));
            }
            continue;
        }
        if thorough && (f.n_inputs == 3 || f.name.contains("2")) {
            // large tape spaces: a covering set of owner vectors x 4 output subsets (fewer for the 2^18-tape families)
            let ovs = super::c01::covering_owners(f.n_inputs);
            let big = f.name == "(x2*y2)[0]" || f.name == "x2*y2 (array out)";
            let ovs: Vec<Vec<Owner>> = if big { vec![ovs[0].clone(), ovs[3].clone()] } else if f.name == "(x*y)*z" || f.name.contains("2") { ovs } else { owner_subset(3, true) };
            let outs_set: Vec<Vec<u8>> = if big { vec![vec![], vec![2]] } else { vec![vec![], vec![0], vec![1, 2], vec![0, 1, 2]] };
            for ov in ovs {
                for outs in outs_set.iter() {
                    tasks.push((fi, false, ov.clone(), outs.clone()));
                }
            }
            continue;
        }
        for (oi, ov) in owner_subset(f.n_inputs, thorough).into_iter().enumerate() {
            for outs in mpcx::output_subsets() {
                tasks.push((fi, false, ov.clone(), outs));
            }
            // output-party lists that are not ascending (another party reveals and forwards): first owner vectors only
            if f.n_inputs <= 2 && oi < if thorough { 6 } else { 2 } {
                for outs in mpcx::output_lists_unsorted() {
                    tasks.push((fi, false, ov.clone(), outs));
                    unsorted_cfgs += 1;
                }
            }
        }
    }
    r.count("configurations_with_unsorted_output_list", unsorted_cfgs);
    for (fi, f) in fams8.iter().enumerate() {
        if f.n_inputs == 2 {
            // two unknown mask bytes per observer: 65536 tapes per input pair
            if !thorough {
                continue;
            }
            for (ov, outs) in [(vec![P(0), P(1)], vec![2u8]), (vec![P(2), P(0)], vec![])] {
                tasks.push((fi, true, ov, outs));
            }
            continue;
        }
        for ov in mpcx::owner_vectors(f.n_inputs) {
            if ov.contains(&Owner::Shared) {
                continue;
            }
            for outs in mpcx::output_subsets() {
                tasks.push((fi, true, ov.clone(), outs));
            }
        }
    }
    r.count("configurations", tasks.len() as u64);
    let outcomes: Vec<Outcome> = tasks
        .par_iter()
        .map(|(fi, is8, ov, outs)| {
            if *is8 {
                let ctx = build_ctx(&fams8[*fi]);
                let alpha: Vec<u128> = if fams8[*fi].n_inputs == 2 { vec![0, 1, 200] } else { vec![0, 1, 127, 128, 255] };
                analyse(&ctx, ov, outs, cap, Some(&alpha), &[0, 1, 2], Some(&[0x00, 0x5B, 0xFF]))
            } else {
                let ctx = build_ctx(&fams[*fi]);
                analyse(&ctx, ov, outs, cap, None, &[0, 1, 2], None)
            }
        })
        .collect();
    for (t, oc) in tasks.iter().zip(outcomes.iter()) {
        let name: &str = if t.1 { &fams8[t.0].name } else { &fams[t.0].name };
        r.count("evaluations", oc.executions);
        r.count("states", oc.executions);
        r.count("transitions", oc.executions * 3);
        r.count("view_groups_compared", oc.groups_compared);
        r.count("distinct_views_total", oc.distinct_views);
        if let Some(s) = &oc.skipped {
            r.count("configurations_skipped", 1);
            if s.contains("cap") {
                r.cap_hit(&format!("{} owners {:?} outs {:?}: {}", name, t.2.iter().map(|o| o.name()).collect::<Vec<_>>(), t.3, s));
            }
            continue;
        }
        r.count("configurations_analysed", 1);
        if oc.real_entries > 0 {
            r.count("configurations_with_masks", 1);
        }
        if oc.junk_entries_enumerated > 0 {
            r.count("configurations_with_sender_private_randomness", 1);
        }
        r.distinct_str(&format!("{}{:?}{:?}", name, t.2, t.3));
        if let Some((obs, m)) = &oc.leak {
            r.violation(
                &format!("C03:{}:leak", name),
                &format!("{} owners {:?} outs {:?}: {}", name, t.2.iter().map(|o| o.name()).collect::<Vec<_>>(), t.3, m),
                json!({"family": name, "u8": t.1, "owners": super::c01::owners_json(&t.2), "outs": t.3, "observer": obs}),
            );
        }
        if r.want_sample() && oc.real_entries > 3 {
            r.sample(json!({"family": name, "owners": super::c01::owners_json(&t.2), "outs": t.3, "real_key_prf_entries": oc.real_entries,
                "tapes_per_input": oc.tapes, "executions": oc.executions, "groups_compared": oc.groups_compared}));
        }
    }
    if std::env::var("VERIF_DRY").is_ok() {
        let mut per: BTreeMap<String, (u64, u64, u64)> = BTreeMap::new();
        for (t, oc) in tasks.iter().zip(outcomes.iter()) {
            let name: &str = if t.1 { &fams8[t.0].name } else { &fams[t.0].name };
            let e = per.entry(name.to_string()).or_insert((0, 0, 0));
            e.0 += oc.executions;
            e.1 = e.1.max(oc.tapes);
            e.2 += 1;
        }
        for (k, v) in per {
            eprintln!("{:20} configs {:5} executions {:12} max tapes {}", k, v.2, v.0, v.1);
        }
    }
    conformance(r);
    r.finish(
        "model_checking",
        "bit family: x, x+y, x*y, x*x, (x*y)+z, (x*y)*z, x*y+x*z (thorough: dot/sum/slice/array products on bit[2]) x owner vectors x 8 output subsets x each observer; the tape = ALL assignments of ALL PRF entries under real keys (entries evaluated by two parties) and all share pairs of already-shared inputs; for every tape and every input assignment the real compiled graph is executed by three parties (states = executions, transitions = party runs) and the observer's view = every value it holds; for any two other-party input vectors with equal observer inputs and output the exact multisets of views over all tapes must coincide. 8-bit linear family (u8 x, x+y, x-y): entries the observer can compute are fixed to 3 patterns, the others enumerated over all 256 values, inputs from a small alphabet. distinct = analysed (family, owners, outputs) configurations",
        true,
        &[
            "PRF idealised as a table of independent uniform entries per (key, counter, type); bound to the real code by conformance replay (table refilled from a real-PRF run reproduces every node value); freshness of counters is C04, PRF purity is C15",
            "only bit-typed multiplicative protocols and 8-bit linear protocols are covered by tape enumeration; A2B/B2A, OT, truncation, sort and join need >= 2^24 tapes per message and are NOT covered (their send pattern is exercised by C02)",
            "PRF keys are fixed distinct labels (a key is an input-independent uniform string)",
        ],
        &["evaluations", "states", "transitions", "configurations_with_masks", "view_groups_compared", "traces_validated_against_impl"],
    )
}

/// Binding of the idealisation: run with the real AES PRF, record every PRF output, refill the table from the
/// recording and re-run in scripted mode: every node value must coincide.
fn conformance(r: &Report) {
    struct Rec {
        out: Vec<(usize, usize, EntryKey)>,
    }
    impl Oracle for Rec {
        fn observe(&mut self, _p: usize, _i: usize, _v: &Value) {}
    }
    let _ = Rec { out: vec![] };
    for f in families(false) {
        let ctx = build_ctx(&f);
        let owners: Vec<Owner> = (0..f.n_inputs).map(|i| Owner::P(i as u8 % 3)).collect();
        let compiled = mpcx::compile(&ctx, &owners, &[0], &InlineMode::Simple).unwrap();
        let plan = Plan::of_context(&compiled).unwrap();
        let types = mpcx::input_types(&ctx);
        let plain: Vec<Value> = types.iter().map(|t| Value::one_of_type(t.clone()).unwrap()).collect();
        let pi = mpcx::party_inputs(&types, &owners, &plain, &mut || 0, &mut || 0);
        // real run (real keys from the evaluators' PRNGs, real AES PRF)
        let real = mpcx::eval_compiled_three(&plan, &pi, [21, 22, 23], &mut crate::exec::RealRandomness);
        // scripted run: keys replayed as the real ones, PRF table filled from the recording
        struct Replay<'a> {
            real: &'a crate::exec::ThreeRun,
        }
        impl<'a> Oracle for Replay<'a> {
            fn random(&mut self, p: usize, i: usize, _t: &Type) -> Option<Value> {
                // before any Send the party's own draw
                None.or_else(|| self.real.vals[p][i].val())
            }
            fn prf(&mut self, p: usize, i: usize, _k: &[u8], _iv: u64, _t: &Type) -> Option<Value> {
                self.real.vals[p][i].val()
            }
        }
        // note: Random nodes are overwritten by Send later in the real run only on NOP nodes, never on the Random node itself
        let mut rp = Replay { real: &real };
        let scripted = mpcx::eval_compiled_three(&plan, &pi, [1, 2, 3], &mut rp);
        for p in 0..3 {
            for i in 0..plan.nodes.len() {
                if real.vals[p][i].val() != scripted.vals[p][i].val() {
                    println!("MACHINERY-ERROR C03 conformance: scripted executor diverges from the real-PRF run at party {} node {}", p, i);
                    std::process::exit(2);
                }
            }
        }
        r.count("traces_validated_against_impl", 1);
    }
}

pub fn replay(_r: &Report, rec: &J) -> i32 {
    let case = &rec["case"];
    let name = case["family"].as_str().unwrap_or("");
    let is8 = case["u8"].as_bool().unwrap_or(false);
    let fams = if is8 { families_u8() } else { families(true) };
    let f = match fams.iter().find(|f| f.name == name) {
        Some(f) => f,
        None => {
            println!("unknown family {}", name);
            return 2;
        }
    };
    let owners = super::c01::owners_from_json(&case["owners"]);
    let outs: Vec<u8> = case["outs"].as_array().unwrap().iter().map(|x| x.as_u64().unwrap() as u8).collect();
    let obs = case["observer"].as_u64().unwrap_or(0) as usize;
    let ctx = build_ctx(f);
    let alpha: Vec<u128> = vec![0, 1, 127, 128, 255];
    let oc = if is8 {
        analyse(&ctx, &owners, &outs, 24, Some(&alpha), &[obs], Some(&[0x00, 0x5B, 0xFF]))
    } else {
        analyse(&ctx, &owners, &outs, 24, None, &[obs], None)
    };
    match oc.leak {
        Some((_, m)) => {
            println!("observed : {}", m);
            println!("expected : identical view multisets");
            1
        }
        None => {
            println!("views identically distributed over {} executions (violation does not reproduce)", oc.executions);
            0
        }
    }
}
