//! C20 - approximate numeric operations stay close to the real function.
//!
//! Bounded-exhaustive sweep: for every configuration (operation x parameters x scalar type x kind of
//! initial approximation) EVERY representable input of the documented domain is fed through the real
//! pipeline (custom-op instantiation + inlining + SimpleEvaluator) as large arrays and compared, point by
//! point, with an f64 evaluation of the exact function. The tolerance per operation is the error the
//! SOURCE states (doc comments, the `log_buckets => max abs error` tables, the bounds the repo's own
//! tests assert) plus 2 units of the fixed-point grid for rounding.
//! Second part (regression oracle, weaker, labelled so): compiled secure versions on sub-grids vs plaintext.
use crate::common::{catch, Report};
use crate::exec::{first_line, new_eval, Plan, RealRandomness};
use crate::mpcx::{self, Owner};
use crate::vals;
use ciphercore_base::custom_ops::{run_instantiation_pass, CustomOperation};
use ciphercore_base::data_types::{array_type, ScalarType, INT64, UINT64};
use ciphercore_base::data_values::Value;
use ciphercore_base::evaluators::Evaluator;
use ciphercore_base::graphs::{create_context, Context};
use ciphercore_base::inline::inline_ops::{inline_operations, InlineConfig, InlineMode};
use ciphercore_base::ops::fixed_precision::fixed_multiply::FixedMultiply;
use ciphercore_base::ops::fixed_precision::fixed_precision_config::FixedPrecisionConfig;
use ciphercore_base::ops::goldschmidt_division::GoldschmidtDivision;
use ciphercore_base::ops::inverse_sqrt::InverseSqrt;
use ciphercore_base::ops::newton_inversion::NewtonInversion;
use ciphercore_base::ops::pwl::approx_exponent::ApproxExponent;
use ciphercore_base::ops::pwl::approx_gelu::ApproxGelu;
use ciphercore_base::ops::pwl::approx_gelu_derivative::ApproxGeluDerivative;
use ciphercore_base::ops::pwl::approx_sigmoid::ApproxSigmoid;
use ciphercore_base::ops::taylor_exponent::TaylorExponent;
use rayon::prelude::*;
use serde_json::{json, Value as J};
use std::collections::BTreeSet;

// ---------------------------------------------------------------------------------------------
// Stated bounds (copied from the source, with where they are stated)
// ---------------------------------------------------------------------------------------------

/// approx_sigmoid.rs:82-85 "max absolute difference to the real sigmoid": log_buckets 4,5,6
const SIGMOID_TABLE: [(u64, f64); 3] = [(4, 0.0163), (5, 0.0045), (6, 0.0012)];
/// approx_gelu.rs:80-83 "max absolute difference": log_buckets 4,5,6
const GELU_TABLE: [(u64, f64); 3] = [(4, 0.0232), (5, 0.0059), (6, 0.0015)];
/// approx_gelu_derivative.rs:82-85 "max absolute error is around": log_buckets 4,5,6
const GELUD_TABLE: [(u64, f64); 3] = [(4, 0.024), (5, 0.006), (6, 0.0015)];
/// newton_inversion.rs / inverse_sqrt.rs tests: |result - expected| <= 1
const NEWTON_UNITS: f64 = 1.0;
/// goldschmidt_division.rs tests: relative error <= 1 %
const GOLD_REL: f64 = 0.01;
/// taylor_exponent.rs tests: |e-a| / (1 + max(e,a)) <= 0.01
const TAYLOR_REL: f64 = 0.01;
/// approx_exponent.rs tests: |e-a| / (1 + max(e,a)) <= 0.05
const AEXP_REL: f64 = 0.05;
/// rounding allowance on top of every stated bound (floor in the op + floor in the repo's own expected values)
const ROUND_UNITS: f64 = 2.0;

// ---------------------------------------------------------------------------------------------
// Secure-vs-plaintext regression bounds (frozen = 2 x measured maximum on the unchanged tree)
// measured on tree bb565a2 with VERIF_SEED=0, seeds 0..SECURE_SEEDS_MEASURED, inline mode Simple
// ---------------------------------------------------------------------------------------------
const SECURE_SEEDS_QUICK: u64 = 2;
const SECURE_SEEDS_THOROUGH: u64 = 4;
/// (op name, maximum measured over both tiers, frozen bound = 2 x measured); units: grid units, TaylorExponent: ppm
const SECURE_BOUNDS: [(&str, i128, i128); 4] = [
    // quick 17, thorough 21 (ApproxSigmoid: the +-1 of the secure Truncate of the bucket index selects the
    // neighbouring segment, whose line is up to f''*h^2 = 0.024 = 24 units of 2^-10 away)
    ("ApproxSigmoid", 21, 42),
    // quick 2, thorough 2
    ("NewtonInversion", 2, 4),
    // quick 34, thorough 44 (not self-correcting: every Truncate error is carried to the quotient)
    ("GoldschmidtDivision", 44, 88),
    // quick 3892 ppm, thorough 4141 ppm (+-1 unit of x/ln2 at precision 10 is a factor 2^(1/1024) ~ 700 ppm each)
    ("TaylorExponent", 4141, 8282),
];

// ---------------------------------------------------------------------------------------------
// Configurations
// ---------------------------------------------------------------------------------------------

#[derive(Clone, Copy, Debug, PartialEq, Eq)]
enum Op {
    Newton,
    InvSqrt,
    Gold,
    Taylor,
    AExp,
    Sigmoid,
    Gelu,
    GeluD,
    FixMul,
}

impl Op {
    fn name(&self) -> &'static str {
        match self {
            Op::Newton => "NewtonInversion",
            Op::InvSqrt => "InverseSqrt",
            Op::Gold => "GoldschmidtDivision",
            Op::Taylor => "TaylorExponent",
            Op::AExp => "ApproxExponent",
            Op::Sigmoid => "ApproxSigmoid",
            Op::Gelu => "ApproxGelu",
            Op::GeluD => "ApproxGeluDerivative",
            Op::FixMul => "FixedMultiply",
        }
    }
    fn from_name(s: &str) -> Option<Op> {
        for o in [Op::Newton, Op::InvSqrt, Op::Gold, Op::Taylor, Op::AExp, Op::Sigmoid, Op::Gelu, Op::GeluD, Op::FixMul] {
            if o.name() == s {
                return Some(o);
            }
        }
        None
    }
    fn is_pwl(&self) -> bool {
        matches!(self, Op::AExp | Op::Sigmoid | Op::Gelu | Op::GeluD)
    }
}

/// How the initial approximation of the Newton-type operations is supplied.
#[derive(Clone, Copy, Debug, PartialEq, Eq)]
enum Approx {
    /// computed by the operation itself
    Internal,
    /// smallest admissible value of the documented contract (intended reading, see `approx_value`)
    GivenLow,
    /// largest admissible value of the documented contract (intended reading)
    GivenHigh,
    /// InverseSqrt only: the contract exactly as written in the doc comment (on input * a, not input * a^2)
    LiteralLow,
    LiteralHigh,
}

impl Approx {
    fn name(&self) -> &'static str {
        match self {
            Approx::Internal => "internal",
            Approx::GivenLow => "given-lowest-admissible",
            Approx::GivenHigh => "given-highest-admissible",
            Approx::LiteralLow => "given-literal-doc-lowest",
            Approx::LiteralHigh => "given-literal-doc-highest",
        }
    }
    fn from_name(s: &str) -> Option<Approx> {
        for a in [Approx::Internal, Approx::GivenLow, Approx::GivenHigh, Approx::LiteralLow, Approx::LiteralHigh] {
            if a.name() == s {
                return Some(a);
            }
        }
        None
    }
}

#[derive(Clone, Debug)]
struct Cfg {
    op: Op,
    /// INT64 (true) or UINT64 (false); only the Newton-type operations accept UINT64
    signed: bool,
    /// iterations | taylor_terms | approximation_log_buckets | debug flag (FixedMultiply) | unused (ApproxExponent)
    k: u64,
    /// denominator_cap_2k | fixed_precision_points | precision | fractional_bits
    p: u64,
    /// the default of `k` for this `p` (rule of thumb of the doc / value used by the repo's tests)
    k_default: u64,
    approx: Approx,
}

impl Cfg {
    fn to_json(&self) -> J {
        json!({"op": self.op.name(), "signed": self.signed, "k": self.k, "p": self.p,
               "k_default": self.k_default, "approx": self.approx.name()})
    }
    fn from_json(j: &J) -> Option<Cfg> {
        Some(Cfg {
            op: Op::from_name(j.get("op")?.as_str()?)?,
            signed: j.get("signed")?.as_bool()?,
            k: j.get("k")?.as_u64()?,
            p: j.get("p")?.as_u64()?,
            k_default: j.get("k_default")?.as_u64()?,
            approx: Approx::from_name(j.get("approx")?.as_str()?)?,
        })
    }
    fn st(&self) -> ScalarType {
        if self.signed {
            INT64
        } else {
            UINT64
        }
    }
    fn name(&self) -> String {
        let st = if self.signed { "i64" } else { "u64" };
        match self.op {
            Op::Newton | Op::InvSqrt | Op::Gold => format!(
                "{}{{iterations={},cap={}}}:{}:approx={}",
                self.op.name(),
                self.k,
                self.p,
                st,
                self.approx.name()
            ),
            Op::Taylor => format!("TaylorExponent{{taylor_terms={},precision={}}}", self.k, self.p),
            Op::AExp => format!("ApproxExponent{{precision={}}}", self.p),
            Op::Sigmoid | Op::Gelu | Op::GeluD => {
                format!("{}{{precision={},log_buckets={}}}", self.op.name(), self.p, self.k)
            }
            Op::FixMul => format!("FixedMultiply{{fractional_bits={},debug={}}}", self.p, self.k == 1),
        }
    }
    fn k_class(&self) -> &'static str {
        if self.k == self.k_default {
            "default"
        } else if self.k + 1 == self.k_default {
            "default-1"
        } else {
            "other"
        }
    }
    /// stable signature of WHAT fails: operation, how the approximation is supplied / parameter class, kind.
    /// (iterations / taylor_terms are deliberately not part of it: one defect, one signature)
    fn signature(&self, kind: &str) -> String {
        match self.op {
            Op::Newton | Op::InvSqrt | Op::Gold => {
                format!("C20:{}:approx={}:{}", self.op.name(), self.approx.name(), kind)
            }
            Op::Taylor => format!("C20:TaylorExponent:precision={}:{}", self.p, kind),
            Op::AExp => format!("C20:ApproxExponent:precision={}:{}", self.p, kind),
            Op::Sigmoid | Op::Gelu | Op::GeluD => {
                format!("C20:{}:log_buckets={}:precision={}:{}", self.op.name(), self.k, self.p, kind)
            }
            Op::FixMul => format!("C20:FixedMultiply:debug={}:{}", self.k == 1, kind),
        }
    }
    /// the table-based PWL operations distinguish a marginal excess over the tabulated number from a gross one
    fn has_severity_classes(&self) -> bool {
        matches!(self.op, Op::Sigmoid | Op::Gelu | Op::GeluD)
    }
    fn arity(&self) -> usize {
        let base = match self.op {
            Op::Gold | Op::FixMul => 2,
            _ => 1,
        };
        base + if self.approx != Approx::Internal { 1 } else { 0 }
    }
}

/// rule of thumb of newton_inversion.rs:50 / goldschmidt_division.rs:52: "1 + log(denominator_cap_2k)"
/// (binary logarithm rounded up; gives the 5 the repo's tests use for cap 10)
fn newton_default_iterations(cap: u64) -> u64 {
    let mut l = 0;
    while (1u64 << l) < cap {
        l += 1;
    }
    1 + l
}

// ---------------------------------------------------------------------------------------------
// Exact functions (f64), written independently of the library
// ---------------------------------------------------------------------------------------------

fn erf_series(z: f64) -> f64 {
    // erf z = 2/sqrt(pi) * sum_{n>=0} (-1)^n z^(2n+1) / (n! (2n+1)), used for |z| < 2.5 only
    let z2 = z * z;
    let mut pow = z;
    let mut sum = z;
    for n in 1..300 {
        pow *= -z2 / n as f64;
        let c = pow / (2 * n + 1) as f64;
        sum += c;
        if c.abs() < 1e-19 {
            break;
        }
    }
    sum * 2.0 / std::f64::consts::PI.sqrt()
}

fn erfc_cf(z: f64) -> f64 {
    // erfc z = exp(-z^2)/sqrt(pi) / (z + (1/2)/(z + (2/2)/(z + (3/2)/(z + ...)))), z >= 2.5
    let mut f = z;
    for k in (1..=200).rev() {
        f = z + (k as f64 / 2.0) / f;
    }
    (-z * z).exp() / (std::f64::consts::PI.sqrt() * f)
}

fn erfc_pos(z: f64) -> f64 {
    if z < 2.5 {
        1.0 - erf_series(z)
    } else {
        erfc_cf(z)
    }
}

/// standard normal CDF
fn phi_cdf(t: f64) -> f64 {
    let s = std::f64::consts::SQRT_2;
    if t >= 0.0 {
        1.0 - 0.5 * erfc_pos(t / s)
    } else {
        0.5 * erfc_pos(-t / s)
    }
}

fn phi_pdf(t: f64) -> f64 {
    (-0.5 * t * t).exp() / (2.0 * std::f64::consts::PI).sqrt()
}

fn oracle_selfcheck() -> Result<(), String> {
    let checks: [(f64, f64, &str); 6] = [
        (erf_series(1.0), 0.842_700_792_949_714_9, "erf(1)"),
        (erf_series(0.5), 0.520_499_877_813_046_5, "erf(0.5)"),
        (erfc_cf(3.0), 2.209_049_699_858_544e-5, "erfc(3)"),
        (1.0 - erf_series(2.5), erfc_cf(2.5), "erfc(2.5) series vs continued fraction"),
        (phi_cdf(1.959_963_984_540_054), 0.975, "Phi(1.96)"),
        (phi_cdf(-1.0) + phi_cdf(1.0), 1.0, "Phi symmetry"),
    ];
    for (got, want, what) in checks.iter() {
        if (got - want).abs() > 1e-10 * want.abs().max(1e-3) {
            return Err(format!("oracle self-check failed: {} = {:e}, expected {:e}", what, got, want));
        }
    }
    Ok(())
}

/// exact tanh-form GELU of approx_gelu.rs (the function the source tabulates), in f64
fn gelu_tanh(t: f64) -> f64 {
    let a = (2.0 / std::f64::consts::PI).sqrt() * (t + 0.044715 * t * t * t);
    0.5 * t * (1.0 + a.tanh())
}

/// the closed form of approx_gelu_derivative.rs (the function the source tabulates), in f64
fn gelud_paper(t: f64) -> f64 {
    let t3 = t * t * t;
    let u = 0.0356774 * t3 + 0.797885 * t;
    0.5 * u.tanh() + 0.5 + (0.0535161 * t3 + 0.398942 * t) / (u.cosh() * u.cosh())
}

// ---------------------------------------------------------------------------------------------
// Initial approximations under the documented contracts
// ---------------------------------------------------------------------------------------------

/// smallest a >= 1 with d * a * a >= t
fn sqrt_ceil_div(t: i128, d: i128) -> i128 {
    let mut a = ((t as f64) / (d as f64)).sqrt() as i128;
    if a < 1 {
        a = 1;
    }
    while d * a * a < t {
        a += 1;
    }
    while a > 1 && d * (a - 1) * (a - 1) >= t {
        a -= 1;
    }
    a
}

/// largest a with d * a * a <= t (0 if none)
fn sqrt_floor_div(t: i128, d: i128) -> i128 {
    let mut a = ((t as f64) / (d as f64)).sqrt() as i128;
    while d * (a + 1) * (a + 1) <= t {
        a += 1;
    }
    while a > 0 && d * a * a > t {
        a -= 1;
    }
    a
}

/// The worst admissible initial approximations.
/// NewtonInversion / GoldschmidtDivision (doc): 2^(cap-1) <= input * a < 2^(cap+1).
/// InverseSqrt (doc, literal): 2^(2cap-2) <= input * a <= 2^(2cap); the repo's own test
/// (`test_inverse_sqrt_with_initial_guess`) and the mathematics use input * a^2 in that interval - the
/// "intended" reading checked by GivenLow/GivenHigh.
fn approx_value(cfg: &Cfg, d: i64) -> i64 {
    let d = d as i128;
    let cap = cfg.p as u32;
    let v = match (cfg.op, cfg.approx) {
        (Op::Newton, Approx::GivenLow) | (Op::Gold, Approx::GivenLow) => {
            let t = 1i128 << (cap - 1);
            (t + d - 1) / d
        }
        (Op::Newton, Approx::GivenHigh) | (Op::Gold, Approx::GivenHigh) => ((1i128 << (cap + 1)) - 1) / d,
        (Op::InvSqrt, Approx::GivenLow) => sqrt_ceil_div(1i128 << (2 * cap - 2), d),
        (Op::InvSqrt, Approx::GivenHigh) => sqrt_floor_div(1i128 << (2 * cap), d),
        (Op::InvSqrt, Approx::LiteralLow) => {
            let t = 1i128 << (2 * cap - 2);
            (t + d - 1) / d
        }
        (Op::InvSqrt, Approx::LiteralHigh) => (1i128 << (2 * cap)) / d,
        _ => 0,
    };
    v as i64
}

/// is `a` admissible for divisor d under the contract the mode stands for? (guards the harness itself)
fn approx_admissible(cfg: &Cfg, d: i64, a: i64) -> bool {
    let (d, a) = (d as i128, a as i128);
    let cap = cfg.p as u32;
    match (cfg.op, cfg.approx) {
        (Op::Newton, _) | (Op::Gold, _) => (1i128 << (cap - 1)) <= d * a && d * a < (1i128 << (cap + 1)),
        (Op::InvSqrt, Approx::GivenLow) | (Op::InvSqrt, Approx::GivenHigh) => {
            (1i128 << (2 * cap - 2)) <= d * a * a && d * a * a <= (1i128 << (2 * cap))
        }
        (Op::InvSqrt, _) => (1i128 << (2 * cap - 2)) <= d * a && d * a <= (1i128 << (2 * cap)),
        _ => true,
    }
}

// ---------------------------------------------------------------------------------------------
// Building and evaluating (real code only)
// ---------------------------------------------------------------------------------------------

fn build(cfg: &Cfg, n: u64) -> Result<Context, String> {
    let cfg = cfg.clone();
    let r = catch(move || -> ciphercore_base::errors::Result<Context> {
        let c = create_context()?;
        let g = c.create_graph()?;
        let t = array_type(vec![n], cfg.st());
        let mut args = vec![];
        for _ in 0..cfg.arity() {
            args.push(g.input(t.clone())?);
        }
        let op = match cfg.op {
            Op::Newton => CustomOperation::new(NewtonInversion { iterations: cfg.k, denominator_cap_2k: cfg.p }),
            Op::InvSqrt => CustomOperation::new(InverseSqrt { iterations: cfg.k, denominator_cap_2k: cfg.p }),
            Op::Gold => CustomOperation::new(GoldschmidtDivision { iterations: cfg.k, denominator_cap_2k: cfg.p }),
            Op::Taylor => CustomOperation::new(TaylorExponent { taylor_terms: cfg.k, fixed_precision_points: cfg.p }),
            Op::AExp => CustomOperation::new(ApproxExponent { precision: cfg.p }),
            Op::Sigmoid => CustomOperation::new(ApproxSigmoid { precision: cfg.p, approximation_log_buckets: cfg.k }),
            Op::Gelu => CustomOperation::new(ApproxGelu { precision: cfg.p, approximation_log_buckets: cfg.k }),
            Op::GeluD => {
                CustomOperation::new(ApproxGeluDerivative { precision: cfg.p, approximation_log_buckets: cfg.k })
            }
            Op::FixMul => CustomOperation::new(FixedMultiply {
                config: FixedPrecisionConfig { fractional_bits: cfg.p, debug: cfg.k == 1 },
            }),
        };
        let o = g.custom_op(op, args)?;
        o.set_as_output()?;
        g.finalize()?;
        g.set_as_main()?;
        c.finalize()?;
        Ok(c)
    });
    match r {
        Ok(Ok(c)) => Ok(c),
        Ok(Err(e)) => Err(format!("build error: {}", first_line(&e.to_string()))),
        Err(p) => Err(format!("build panic: {}", p)),
    }
}

/// instantiate + inline + evaluate, as the repo's own tests do (plus inlining)
fn eval_pipeline(ctx: &Context, inputs: Vec<Value>, seed: u64) -> Result<Value, String> {
    let c = ctx.clone();
    let r = catch(move || -> ciphercore_base::errors::Result<Value> {
        let inst = run_instantiation_pass(c)?.get_context();
        let inl = inline_operations(
            &inst,
            InlineConfig { default_mode: InlineMode::Simple, ..Default::default() },
        )?
        .get_context();
        let mut ev = new_eval(seed);
        ev.preprocess(&inl)?;
        ev.evaluate_context(inl, inputs)
    });
    match r {
        Ok(Ok(v)) => Ok(v),
        Ok(Err(e)) => Err(format!("error: {}", first_line(&e.to_string()))),
        Err(p) => Err(format!("panic: {}", p)),
    }
}

/// the input arrays for a list of points (x, y): column 0 = x, column 1 = y (binary ops), last = approximation
fn columns(cfg: &Cfg, pts: &[(i64, i64)]) -> Vec<Vec<i64>> {
    let mut cols = vec![pts.iter().map(|p| p.0).collect::<Vec<i64>>()];
    if matches!(cfg.op, Op::Gold | Op::FixMul) {
        cols.push(pts.iter().map(|p| p.1).collect());
    }
    if cfg.approx != Approx::Internal {
        let divisor = |p: &(i64, i64)| if cfg.op == Op::Gold { p.1 } else { p.0 };
        cols.push(pts.iter().map(|p| approx_value(cfg, divisor(p))).collect());
    }
    cols
}

fn to_value(col: &[i64], st: &ScalarType) -> Value {
    let e: Vec<u128> = col.iter().map(|x| *x as i128 as u128).collect();
    vals::arr_value(&e, st)
}

fn from_value(v: &Value, n: usize, st: &ScalarType) -> Result<Vec<i128>, String> {
    let t = array_type(vec![n as u64], *st);
    match vals::arr_elems(v, &t) {
        Some(e) => Ok(e.iter().map(|x| vals::to_signed(*x, st)).collect()),
        None => Err("output does not have the layout of the output type".to_string()),
    }
}

fn eval_points(cfg: &Cfg, pts: &[(i64, i64)], seed: u64) -> Result<Vec<i128>, String> {
    let ctx = build(cfg, pts.len() as u64)?;
    let st = cfg.st();
    let inputs: Vec<Value> = columns(cfg, pts).iter().map(|c| to_value(c, &st)).collect();
    let out = eval_pipeline(&ctx, inputs, seed)?;
    from_value(&out, pts.len(), &st)
}

// ---------------------------------------------------------------------------------------------
// Oracle: exact value and tolerance at one point
// ---------------------------------------------------------------------------------------------

struct Expect {
    /// exact value in units of the output grid
    exact: f64,
    /// admissible |observed - exact| in units of the output grid
    tol: f64,
    /// GELU / GELU' only: (value of the closed form the SOURCE tabulates its error against, admissible distance to it)
    src: Option<(f64, f64)>,
}

impl Expect {
    fn new(exact: f64, tol: f64) -> Expect {
        Expect { exact, tol, src: None }
    }
    /// max over the checks of |observed - reference| / tolerance (> 1 means violated)
    fn ratio(&self, observed: i128) -> f64 {
        let o = observed as f64;
        let mut r = (o - self.exact).abs() / self.tol;
        if let Some((v, t)) = self.src {
            r = r.max((o - v).abs() / t);
        }
        if r.is_nan() {
            f64::INFINITY
        } else {
            r
        }
    }
}

fn table_lookup(tab: &[(u64, f64)], lb: u64) -> f64 {
    tab.iter().find(|e| e.0 == lb).map(|e| e.1).unwrap_or(f64::NAN)
}

/// relative residual of exact (real-number) iterations started from the worst start 1/2 of the
/// internal approximation; only used for iterations = default-1, for which the source states nothing
fn ideal_residual(cfg: &Cfg) -> f64 {
    if cfg.k >= cfg.k_default {
        return 0.0;
    }
    match cfg.op {
        // e_{i+1} = e_i^2, e_0 = 1/2
        Op::Newton => 0.5f64.powi(1 << cfg.k),
        // Goldschmidt does iterations-1 refinement rounds
        Op::Gold => 0.5f64.powi(1 << (cfg.k.max(1) - 1)),
        // e_{i+1} = (3 e_i^2 - e_i^3) / 2, e_0 = 1/2
        Op::InvSqrt => {
            let mut e = 0.5f64;
            for _ in 0..cfg.k {
                e = (3.0 * e * e - e * e * e) / 2.0;
            }
            e
        }
        // Lagrange remainder of exp(y), y in [0, ln 2), after k terms, relative to exp(y) >= 1
        Op::Taylor => {
            let mut f = 1.0;
            for i in 1..=cfg.k {
                f *= std::f64::consts::LN_2 / i as f64;
            }
            f
        }
        _ => 0.0,
    }
}

fn expect(cfg: &Cfg, pt: (i64, i64), observed: i128) -> Expect {
    let scale = (1u64 << cfg.p) as f64;
    let x = pt.0 as f64;
    match cfg.op {
        Op::Newton => {
            let exact = scale / x;
            Expect::new(exact, NEWTON_UNITS + ROUND_UNITS + ideal_residual(cfg) * exact)
        }
        Op::InvSqrt => {
            let exact = scale / x.sqrt();
            Expect::new(exact, NEWTON_UNITS + ROUND_UNITS + ideal_residual(cfg) * exact)
        }
        Op::Gold => {
            // 1 % is what the repo's tests assert (on quotients >= 1.8e5 units, where it dominates). The source
            // states no absolute term; Goldschmidt is not self-correcting: each of the iterations-1 refinement
            // rounds truncates the running quotient once (< 1 unit each), hence iterations-1 units on top of
            // the 2 rounding units.
            let exact = scale * x / pt.1 as f64;
            Expect::new(exact, (GOLD_REL + ideal_residual(cfg)) * exact + (cfg.k.max(1) - 1) as f64 + ROUND_UNITS)
        }
        Op::Taylor => {
            let exact = (x / scale).exp() * scale;
            let m = exact.max(observed as f64);
            Expect::new(exact, (TAYLOR_REL + ideal_residual(cfg)) * (1.0 + m) + ROUND_UNITS)
        }
        Op::AExp => {
            let exact = (x / scale).exp() * scale;
            let m = exact.max(observed as f64);
            Expect::new(exact, AEXP_REL * (1.0 + m) + ROUND_UNITS)
        }
        Op::Sigmoid => {
            let exact = scale / (1.0 + (-x / scale).exp());
            Expect::new(exact, table_lookup(&SIGMOID_TABLE, cfg.k) * scale + ROUND_UNITS)
        }
        Op::Gelu | Op::GeluD => {
            // The tables of the source are measured against closed forms (tanh form of GELU; the formula of
            // arXiv 2104.02523 for GELU') which the source itself calls approximations. Two checks:
            // against that closed form with the stated bound, and against the exact function with the stated
            // bound plus the distance between the closed form and the exact function at this point.
            let t = x / scale;
            let (exact, form, tab) = if cfg.op == Op::Gelu {
                (t * phi_cdf(t) * scale, gelu_tanh(t) * scale, table_lookup(&GELU_TABLE, cfg.k))
            } else {
                ((phi_cdf(t) + t * phi_pdf(t)) * scale, gelud_paper(t) * scale, table_lookup(&GELUD_TABLE, cfg.k))
            };
            let tol = tab * scale + ROUND_UNITS;
            Expect { exact, tol: tol + (form - exact).abs(), src: Some((form, tol)) }
        }
        Op::FixMul => {
            // x*y / 2^f exactly; truncation towards zero or floor both stay strictly within one unit
            let exact = (pt.0 as i128 * pt.1 as i128) as f64 / scale;
            Expect::new(exact, 1.0 - 1e-9)
        }
    }
}

/// secondary reference: the function the SOURCE tabulates its error against (only differs for GELU / GELU')
fn source_reference(cfg: &Cfg, pt: (i64, i64)) -> Option<f64> {
    let scale = (1u64 << cfg.p) as f64;
    let t = pt.0 as f64 / scale;
    match cfg.op {
        Op::Gelu => Some(gelu_tanh(t) * scale),
        Op::GeluD => Some(gelud_paper(t) * scale),
        _ => None,
    }
}

/// class of behaviour a point exercises (for the distinct-nontrivial count and the non-vacuity counters)
fn class_of(cfg: &Cfg, pt: (i64, i64)) -> (i64, &'static str) {
    let bitlen = |v: i64| (64 - (v.max(0) as u64).leading_zeros()) as i64;
    match cfg.op {
        // bit length of the input: decides the internal initial approximation
        Op::Newton | Op::InvSqrt => (bitlen(pt.0), "newton_type_points"),
        Op::Gold => (bitlen(pt.0) * 100 + bitlen(pt.1), "newton_type_points"),
        // sign and integer part of x / ln 2
        Op::Taylor => {
            let scale = (1u64 << cfg.p) as f64;
            let xp = (pt.0 as f64 / scale / std::f64::consts::LN_2).floor() as i64;
            if pt.0 < 0 {
                (xp, "taylor_negative_points")
            } else {
                (xp, "taylor_nonnegative_points")
            }
        }
        // left of the segment / bucket index / right of the segment
        Op::AExp | Op::Sigmoid | Op::Gelu | Op::GeluD => {
            let (left, width, lb) = pwl_geometry(cfg);
            let bucket_w = (width >> lb).max(1);
            let s = pt.0 - left;
            if s < 0 {
                (-1, "pwl_left_points")
            } else if s >= width {
                (1 << 20, "pwl_right_points")
            } else {
                (s / bucket_w, "pwl_main_points")
            }
        }
        Op::FixMul => (pt.0.signum() * 3 + pt.1.signum(), "fixed_multiply_points"),
    }
}

/// (left end, width, log_buckets) of the approximated segment in input-grid units
fn pwl_geometry(cfg: &Cfg) -> (i64, i64, u64) {
    let one = 1i64 << cfg.p;
    match cfg.op {
        Op::AExp => (-16 * one, 32 * one, 6),
        Op::Sigmoid => (-8 * one, 16 * one, cfg.k),
        _ => (-4 * one, 8 * one, cfg.k),
    }
}

// ---------------------------------------------------------------------------------------------
// Grids
// ---------------------------------------------------------------------------------------------

struct Grid {
    pts: Vec<(i64, i64)>,
    what: String,
    /// the whole documented domain at this precision?
    full: bool,
}

fn dedup_sorted(mut v: Vec<i64>) -> Vec<i64> {
    v.sort();
    v.dedup();
    v
}

fn unary(v: Vec<i64>) -> Vec<(i64, i64)> {
    v.into_iter().map(|x| (x, 0)).collect()
}

/// how much of the documented domain a configuration sweeps
#[derive(Clone, Copy, Debug, PartialEq, Eq)]
enum Level {
    /// every representable input of the documented domain
    Full,
    /// a prefix / strided sub-grid plus neighbourhoods of the critical points (cost reasons; stated in the evidence)
    Reduced,
}

/// all x in (0, hi) [Full]; or the prefix (0, prefix] plus +-8 around every power of two below hi
/// (where the internal initial approximation changes and is worst) [Reduced]
fn positive_domain(hi: i64, level: Level, prefix: i64) -> (Vec<i64>, String, bool) {
    if level == Level::Full || hi - 1 <= prefix {
        ((1..hi).collect(), format!("all x in (0, {})", hi), true)
    } else {
        let mut v: Vec<i64> = (1..=prefix).collect();
        let mut p = 1i64;
        while p <= hi {
            for d in -8..=8 {
                let x = p + d;
                if x >= 1 && x < hi {
                    v.push(x);
                }
            }
            p *= 2;
        }
        (
            dedup_sorted(v),
            format!("all x in (0, {}] plus +-8 around every power of two up to {} (domain (0, {}))", prefix, hi, hi),
            false,
        )
    }
}

/// [lo, hi] completely [Full]; or every stride-th point plus +-16 around the given marks [Reduced]
fn signed_domain(lo: i64, hi: i64, level: Level, stride: i64, marks: &[i64], marks_what: &str) -> (Vec<i64>, String, bool) {
    if level == Level::Full {
        ((lo..=hi).collect(), format!("all x in [{}, {}]", lo, hi), true)
    } else {
        let mut v = vec![];
        for m in marks.iter().chain([lo + 16, hi - 16, 0].iter()) {
            for d in -16..=16 {
                let x = m + d;
                if x >= lo && x <= hi {
                    v.push(x);
                }
            }
        }
        let mut x = lo;
        while x <= hi {
            v.push(x);
            x += stride;
        }
        (
            dedup_sorted(v),
            format!("x in [{}, {}]: every {}th point and +-16 around {}, 0 and both ends", lo, hi, stride, marks_what),
            false,
        )
    }
}

fn grid(cfg: &Cfg, level: Level, thorough: bool) -> Grid {
    match cfg.op {
        Op::Newton => {
            // doc: input in (0, 2^(cap-1))
            let (v, what, full) = positive_domain(1i64 << (cfg.p - 1), level, 1 << 11);
            Grid { pts: unary(v), what, full }
        }
        Op::InvSqrt => {
            // doc: input in (0, 2^(2cap-1)) and less than 2^21
            let hi = (1i64 << (2 * cfg.p - 1)).min(1 << 21);
            let (v, what, full) = positive_domain(hi, level, 1 << 11);
            Grid { pts: unary(v), what, full }
        }
        Op::Gold => {
            // doc: both inputs in (0, 2^(cap-1))
            let hi = 1i64 << (cfg.p - 1);
            if level == Level::Full {
                let mut pts = vec![];
                for n in 1..hi {
                    for d in 1..hi {
                        pts.push((n, d));
                    }
                }
                Grid { pts, what: format!("all (dividend, divisor) in (0, {})^2", hi), full: true }
            } else {
                let (ds, what, _) = positive_domain(hi, Level::Reduced, if thorough { 1 << 12 } else { 1 << 9 });
                let ns = [1, 3, hi / 2 + 1, hi - 1];
                let mut pts = vec![];
                for n in ns {
                    for d in ds.iter() {
                        pts.push((n, *d));
                    }
                }
                Grid { pts, what: format!("dividends {:?} x divisors: {}", ns, what), full: false }
            }
        }
        Op::Taylor => {
            // no domain in the doc comment; the comments in the code give the limits: results below 2^31
            // ("the exponent is limited from above by 31 - fixed_precision_points") and "if x is smaller than
            // -10, return 0"; swept: [-16, (31-p) ln 2)
            let one = 1i64 << cfg.p;
            let hi = (((31 - cfg.p) as f64) * std::f64::consts::LN_2 * one as f64).floor() as i64 - 1;
            let hi = hi.min(16 * one);
            let lo = -16 * one;
            // where the integer part of x / ln 2 changes; the cut-off of small results
            let mut marks = vec![-10 * one, (-10.0 * std::f64::consts::LN_2 * one as f64).round() as i64];
            for j in -24..24 {
                marks.push((j as f64 * std::f64::consts::LN_2 * one as f64).round() as i64);
            }
            let stride = match (cfg.p, thorough) {
                (10, _) => 17,
                (_, true) => 127,
                (_, false) => 1021,
            };
            let (v, what, full) =
                signed_domain(lo, hi, level, stride, &marks, "every multiple of ln 2, -10 and -10 ln 2 (cut-off)");
            Grid { pts: unary(v), what, full }
        }
        Op::AExp | Op::Sigmoid | Op::Gelu | Op::GeluD => {
            let one = 1i64 << cfg.p;
            let (lo, hi) = (-16 * one, 16 * one);
            let (left, width, lb) = pwl_geometry(cfg);
            // coarse formats: the bucket width can be below one input unit
            let bw = (width >> lb).max(1);
            let mut marks = vec![];
            let mut b = left - bw;
            while b <= left + width + bw {
                marks.push(b);
                marks.push(b + bw / 2);
                b += bw;
            }
            let stride = match (cfg.p, thorough) {
                (10, _) => 13,
                (_, true) => 61,
                (_, false) => 509,
            };
            let (v, what, full) = signed_domain(lo, hi, level, stride, &marks, "every bucket boundary and bucket middle");
            Grid { pts: unary(v), what, full }
        }
        Op::FixMul => {
            if cfg.k == 1 {
                // debug mode (overflow assertion) costs ~70 ms per pair: 7 x 7 values that must not trip it
                let s = [0i64, 1, -1, 1023, -1023, (1 << 20) + 1, -(1 << 20) - 1];
                let mut pts = vec![];
                for x in s {
                    for y in s {
                        pts.push((x, y));
                    }
                }
                Grid { pts, what: format!("all pairs over {:?}", s), full: true }
            } else if cfg.p <= 4 {
                let mut pts = vec![];
                for x in -128..128 {
                    for y in -128..128 {
                        pts.push((x, y));
                    }
                }
                Grid { pts, what: "all (x, y) in [-128, 127]^2".to_string(), full: true }
            } else {
                let mut s = vec![0i64];
                for j in 0..=20 {
                    for d in -1..=1 {
                        let v = (1i64 << j) + d;
                        s.push(v);
                        s.push(-v);
                    }
                }
                let s = dedup_sorted(s);
                let mut pts = vec![];
                for x in s.iter() {
                    for y in s.iter() {
                        pts.push((*x, *y));
                    }
                }
                Grid {
                    pts,
                    what: format!("all pairs over the {} values +-(2^j + {{-1,0,1}}), j <= 20, and 0", s.len()),
                    full: true,
                }
            }
        }
    }
}

// ---------------------------------------------------------------------------------------------
// Configuration list (cost per point measured: internal initial approximation 0.7-1 ms, PWL 0.3-0.7 ms,
// TaylorExponent 2.7 ms, supplied approximation ~1 us - the levels below are chosen from these numbers)
// ---------------------------------------------------------------------------------------------

fn configs(thorough: bool) -> Vec<(Cfg, Level)> {
    use Level::*;
    let mut out = vec![];
    // NewtonInversion: caps 10, 13, 17 (documented domains (0,2^9), (0,2^12), (0,2^16)), thorough also 20
    let newton_caps: &[u64] = if thorough { &[10, 13, 17, 20] } else { &[10, 13, 17] };
    for &cap in newton_caps {
        let kd = newton_default_iterations(cap);
        for signed in [true, false] {
            for k in [kd, kd - 1] {
                // supplied approximations are cheap: always the full domain
                for approx in [Approx::GivenLow, Approx::GivenHigh] {
                    out.push((Cfg { op: Op::Newton, signed, k, p: cap, k_default: kd, approx }, Full));
                }
                let level = match (cap, thorough) {
                    (10, _) => Full,
                    (13, _) => if thorough || (signed && k == kd) { Full } else { Reduced },
                    (17, true) => Full,
                    (20, true) => if signed && k == kd { Full } else { Reduced },
                    _ => Reduced,
                };
                if level == Reduced && !(signed && k == kd) && !(cap == 13) {
                    continue;
                }
                out.push((Cfg { op: Op::Newton, signed, k, p: cap, k_default: kd, approx: Approx::Internal }, level));
            }
        }
    }
    // InverseSqrt: caps 6, 8, 10 (domains (0,2^11), (0,2^15), (0,2^19)), thorough also 11 ((0,2^21))
    let isqrt_caps: &[u64] = if thorough { &[6, 8, 10, 11] } else { &[6, 8, 10] };
    for &cap in isqrt_caps {
        // no rule of thumb in the doc; the repo's tests use 5 iterations at cap 10
        let kd = 5;
        for signed in [true, false] {
            for k in [kd, kd - 1] {
                for approx in [Approx::GivenLow, Approx::GivenHigh, Approx::LiteralLow, Approx::LiteralHigh] {
                    let literal = matches!(approx, Approx::LiteralLow | Approx::LiteralHigh);
                    // the literal reading of the doc is only swept for the small caps and cap 10 (same defect everywhere)
                    if cap == 11 && (literal || !signed) {
                        continue;
                    }
                    let level = if cap >= 10 && !thorough { Reduced } else { Full };
                    out.push((Cfg { op: Op::InvSqrt, signed, k, p: cap, k_default: kd, approx }, level));
                }
                let level = match (cap, thorough) {
                    (6, _) => Full,
                    (8, true) => Full,
                    (10, true) => if signed && k == kd { Full } else { Reduced },
                    _ => Reduced,
                };
                if level == Reduced && !(signed && k == kd) && !(!signed && k != kd) {
                    continue;
                }
                out.push((Cfg { op: Op::InvSqrt, signed, k, p: cap, k_default: kd, approx: Approx::Internal }, level));
            }
        }
    }
    // GoldschmidtDivision: caps 7, 10 (all pairs of (0,2^6)^2, (0,2^9)^2), thorough also 16 (reduced)
    let gold_caps: &[u64] = if thorough { &[7, 10, 16] } else { &[7, 10] };
    for &cap in gold_caps {
        let kd = newton_default_iterations(cap);
        for signed in [true, false] {
            for k in [kd, kd - 1] {
                for approx in [Approx::GivenLow, Approx::GivenHigh] {
                    let level = if cap <= 10 { Full } else { Reduced };
                    out.push((Cfg { op: Op::Gold, signed, k, p: cap, k_default: kd, approx }, level));
                }
                let level = match (cap, thorough) {
                    (7, _) => Full,
                    (10, true) => if (signed && k == kd) || (!signed && k != kd) { Full } else { Reduced },
                    _ => Reduced,
                };
                if level == Reduced && !(signed && k == kd) {
                    continue;
                }
                out.push((Cfg { op: Op::Gold, signed, k, p: cap, k_default: kd, approx: Approx::Internal }, level));
            }
        }
    }
    // TaylorExponent
    for p in [10u64, 15] {
        for k in [5u64, 4] {
            let level = if p == 10 && thorough { Full } else { Reduced };
            if p == 15 && k == 4 && !thorough {
                continue;
            }
            out.push((Cfg { op: Op::Taylor, signed: true, k, p, k_default: 5, approx: Approx::Internal }, level));
        }
    }
    // piecewise-linear operations
    for p in [10u64, 15] {
        let lvl = |default_buckets: bool, heavy: bool| -> Level {
            if p == 10 {
                if thorough || default_buckets { Full } else { Reduced }
            } else if thorough && heavy {
                Full
            } else {
                Reduced
            }
        };
        out.push((Cfg { op: Op::AExp, signed: true, k: 6, p, k_default: 6, approx: Approx::Internal }, lvl(true, true)));
        for op in [Op::Sigmoid, Op::Gelu, Op::GeluD] {
            for lb in [5u64, 4, 6] {
                if p == 15 && lb != 5 && !thorough {
                    continue;
                }
                let level = lvl(lb == 5, lb == 5 || (op == Op::Gelu && lb == 6));
                out.push((Cfg { op, signed: true, k: lb, p, k_default: 5, approx: Approx::Internal }, level));
            }
        }
    }
    // coarse fixed-point formats: the precision at or below the number of bucket bits of the table (the bucket
    // width in input units is then 1 or a fraction of a unit); whole domain, tiny grids
    for p in [2u64, 3, 4, 5, 6, 7] {
        out.push((Cfg { op: Op::AExp, signed: true, k: 6, p, k_default: 6, approx: Approx::Internal }, Full));
        for op in [Op::Sigmoid, Op::Gelu, Op::GeluD] {
            for lb in [5u64, 6] {
                if lb == 6 && !(thorough || p == 5) {
                    continue;
                }
                out.push((Cfg { op, signed: true, k: lb, p, k_default: 5, approx: Approx::Internal }, Full));
            }
        }
    }
    // fixed-point product
    out.push((Cfg { op: Op::FixMul, signed: true, k: 0, p: 4, k_default: 0, approx: Approx::Internal }, Full));
    out.push((Cfg { op: Op::FixMul, signed: true, k: 0, p: 10, k_default: 0, approx: Approx::Internal }, Full));
    out.push((Cfg { op: Op::FixMul, signed: true, k: 0, p: 15, k_default: 0, approx: Approx::Internal }, Full));
    out.push((Cfg { op: Op::FixMul, signed: true, k: 1, p: 10, k_default: 0, approx: Approx::Internal }, Full));
    out
}

// ---------------------------------------------------------------------------------------------
// Sweep
// ---------------------------------------------------------------------------------------------

#[derive(Clone, Debug)]
struct Bad {
    pt: (i64, i64),
    observed: i128,
    exact: f64,
    tol: f64,
    src: Option<(f64, f64)>,
}

const PLAIN_KIND: &str = "error-above-stated-bound";
/// TaylorExponent: results flushed to zero between the documented cut-off -10 and the actual one -10 ln 2
const TAYLOR_WINDOW_KIND: &str = "flushed-to-zero-in-(-10,-10ln2]";
/// number of violation kinds per configuration (PWL: 3 regions x 2 severities)
const KINDS: usize = 6;
const PWL_KINDS: [&str; KINDS] = [
    "inside-segment:marginally-above-stated-bound(<=1.25x)",
    "inside-segment:far-above-stated-bound(>1.25x)",
    "left-of-segment:marginally-above-stated-bound(<=1.25x)",
    "left-of-segment:far-above-stated-bound(>1.25x)",
    "right-of-segment:marginally-above-stated-bound(<=1.25x)",
    "right-of-segment:far-above-stated-bound(>1.25x)",
];

/// Kind of a violation = the part of the signature that says where / how badly it fails, so that a recorded
/// finding does not hide a different failure of the same configuration.
/// table-based PWL operations: region (inside the approximated segment [left, right) / left / right of it)
/// x severity (up to 1.25 x the tolerance / above); TaylorExponent: cut-off window / elsewhere.
fn kind_of(cfg: &Cfg, pt: (i64, i64), observed: i128, ratio: f64) -> usize {
    if cfg.has_severity_classes() {
        let (left, width, _) = pwl_geometry(cfg);
        let region = if pt.0 < left {
            1
        } else if pt.0 >= left + width {
            2
        } else {
            0
        };
        region * 2 + if ratio <= 1.25 { 0 } else { 1 }
    } else if cfg.op == Op::Taylor {
        let one = (1u64 << cfg.p) as f64;
        let x = pt.0 as f64;
        if observed == 0 && x >= -10.0 * one && x <= -10.0 * std::f64::consts::LN_2 * one + 1.0 {
            0
        } else {
            1
        }
    } else {
        1
    }
}

fn kind_name(cfg: &Cfg, kind: usize) -> &'static str {
    if cfg.has_severity_classes() {
        PWL_KINDS[kind]
    } else if cfg.op == Op::Taylor && kind == 0 {
        TAYLOR_WINDOW_KIND
    } else {
        PLAIN_KIND
    }
}

#[derive(Clone, Debug, Default)]
struct ChunkStat {
    n: u64,
    nontrivial: u64,
    /// max |observed - exact| in units, its argument and the tolerance there
    max_err: f64,
    max_err_at: (i64, i64),
    max_err_tol: f64,
    /// max of |observed - exact| / tol
    max_ratio: f64,
    max_ratio_at: (i64, i64),
    /// max |observed - source's own reference| (GELU / GELU' only)
    max_err_src: f64,
    /// violations per kind (see `kind_of`): count and the worst one (largest error / tolerance; first on ties)
    n_bad: [u64; KINDS],
    worst_bad: [Option<(f64, Bad)>; KINDS],
    classes: BTreeSet<i64>,
    counters: Vec<(&'static str, u64)>,
    error: Option<String>,
}

fn bump(c: &mut Vec<(&'static str, u64)>, k: &'static str) {
    if let Some(e) = c.iter_mut().find(|e| e.0 == k) {
        e.1 += 1;
    } else {
        c.push((k, 1));
    }
}

fn run_chunk(cfg: &Cfg, pts: &[(i64, i64)], seed: u64) -> ChunkStat {
    let mut st = ChunkStat { n: pts.len() as u64, ..Default::default() };
    let res = eval_points(cfg, pts, seed);
    let out = match res {
        Ok(o) => o,
        Err(e) => {
            st.error = Some(e);
            return st;
        }
    };
    for (i, pt) in pts.iter().enumerate() {
        let obs = out[i];
        let e = expect(cfg, *pt, obs);
        let err = (obs as f64 - e.exact).abs();
        let ratio = e.ratio(obs);
        if err > st.max_err || i == 0 {
            st.max_err = err;
            st.max_err_at = *pt;
            st.max_err_tol = e.tol;
        }
        if ratio > st.max_ratio || i == 0 {
            st.max_ratio = ratio;
            st.max_ratio_at = *pt;
        }
        if let Some(s) = source_reference(cfg, *pt) {
            let es = (obs as f64 - s).abs();
            if es > st.max_err_src {
                st.max_err_src = es;
            }
        }
        if !(ratio <= 1.0) {
            let sev = kind_of(cfg, *pt, obs, ratio);
            st.n_bad[sev] += 1;
            if st.worst_bad[sev].as_ref().map(|w| ratio > w.0).unwrap_or(true) {
                st.worst_bad[sev] =
                    Some((ratio, Bad { pt: *pt, observed: obs, exact: e.exact, tol: e.tol, src: e.src }));
            }
        }
        if obs != 0 || e.exact.abs() >= 0.5 {
            st.nontrivial += 1;
        }
        let (cl, counter) = class_of(cfg, *pt);
        st.classes.insert(cl);
        bump(&mut st.counters, counter);
        if cfg.approx != Approx::Internal {
            bump(&mut st.counters, "points_with_given_approximation");
        }
        if cfg.op.is_pwl() {
            let (left, width, lb) = pwl_geometry(cfg);
            let bw = width >> lb;
            let s = pt.0 - left;
            if s.rem_euclid(bw) == 0 || s.rem_euclid(bw) == bw - 1 {
                bump(&mut st.counters, "pwl_bucket_boundary_points");
            }
        }
    }
    st
}

fn chunk_size(cfg: &Cfg) -> usize {
    // balanced against the measured cost per point (largest job a few seconds)
    if cfg.op == Op::Taylor {
        1 << 10
    } else if cfg.op.is_pwl() || (cfg.approx == Approx::Internal && cfg.op != Op::FixMul) {
        1 << 12
    } else {
        1 << 16
    }
}

fn bad_case(cfg: &Cfg, b: &Bad) -> J {
    json!({
        "kind": "plain",
        "cfg": cfg.to_json(),
        "pt": [b.pt.0, b.pt.1],
        "initial_approximation": if cfg.approx != Approx::Internal {
            json!(approx_value(cfg, if cfg.op == Op::Gold { b.pt.1 } else { b.pt.0 }))
        } else { J::Null },
        "observed": b.observed.to_string(),
        "exact_in_grid_units": b.exact,
        "tolerance_in_grid_units": b.tol,
        "source_closed_form_and_tolerance": match b.src { Some((v, t)) => json!([v, t]), None => J::Null },
    })
}

pub fn run(r: &Report) -> i32 {
    if let Err(e) = oracle_selfcheck() {
        println!("MACHINERY-ERROR property=C20 {}", e);
        return 2;
    }
    let thorough = r.tier.thorough();
    let debug = std::env::var("C20_DEBUG").is_ok();
    let mut cfgl = configs(thorough);
    if let Ok(f) = std::env::var("C20_ONLY") {
        cfgl.retain(|c| c.0.name().contains(&f));
    }
    let grids: Vec<Grid> = cfgl.par_iter().map(|c| grid(&c.0, c.1, thorough)).collect();
    let cfgs: Vec<Cfg> = cfgl.iter().map(|c| c.0.clone()).collect();

    // harness self-guard: every supplied approximation must satisfy the contract it stands for
    for (c, g) in cfgs.iter().zip(grids.iter()) {
        if c.approx != Approx::Internal {
            for pt in g.pts.iter() {
                let d = if c.op == Op::Gold { pt.1 } else { pt.0 };
                if !approx_admissible(c, d, approx_value(c, d)) {
                    println!(
                        "MACHINERY-ERROR property=C20 inadmissible initial approximation generated for {} at {}",
                        c.name(),
                        d
                    );
                    return 2;
                }
            }
        }
    }

    // jobs = (configuration, chunk), evaluated in parallel, merged in enumeration order
    let mut jobs: Vec<(usize, usize, usize)> = vec![];
    for (ci, g) in grids.iter().enumerate() {
        let cs = chunk_size(&cfgs[ci]);
        let mut a = 0;
        while a < g.pts.len() {
            let b = (a + cs).min(g.pts.len());
            jobs.push((ci, a, b));
            a = b;
        }
    }
    let seed = r.seed;
    let stats: Vec<ChunkStat> =
        jobs.par_iter().map(|(ci, a, b)| run_chunk(&cfgs[*ci], &grids[*ci].pts[*a..*b], seed)).collect();

    let mut measured = vec![];
    let mut all_full = true; // all configurations on the full documented domain?
    let mut ji = 0;
    for (ci, cfg) in cfgs.iter().enumerate() {
        let g = &grids[ci];
        let mut tot = ChunkStat::default();
        let mut first = true;
        while ji < jobs.len() && jobs[ji].0 == ci {
            let s = &stats[ji];
            ji += 1;
            r.count("graph_evaluations", 1);
            tot.n += s.n;
            tot.nontrivial += s.nontrivial;
            if let Some(e) = &s.error {
                if tot.error.is_none() {
                    tot.error = Some(e.clone());
                }
                continue;
            }
            if first || s.max_err > tot.max_err {
                tot.max_err = s.max_err;
                tot.max_err_at = s.max_err_at;
                tot.max_err_tol = s.max_err_tol;
            }
            if first || s.max_ratio > tot.max_ratio {
                tot.max_ratio = s.max_ratio;
                tot.max_ratio_at = s.max_ratio_at;
            }
            first = false;
            tot.max_err_src = tot.max_err_src.max(s.max_err_src);
            for sev in 0..KINDS {
                tot.n_bad[sev] += s.n_bad[sev];
                if let Some(w) = &s.worst_bad[sev] {
                    if tot.worst_bad[sev].as_ref().map(|t| w.0 > t.0).unwrap_or(true) {
                        tot.worst_bad[sev] = Some(w.clone());
                    }
                }
            }
            for c in s.classes.iter() {
                r.distinct_str(&format!("{}|class{}", cfg.name(), c));
            }
            for (k, v) in s.counters.iter() {
                r.count(k, *v);
            }
        }
        r.count("evaluations", tot.n);
        r.count("configurations", 1);
        r.count("points_nontrivial", tot.nontrivial);
        if !g.full {
            all_full = false;
            r.count("configurations_on_reduced_grid", 1);
        }
        if cfg.k != cfg.k_default {
            r.count("points_nondefault_parameter", tot.n);
        }
        if r.want_sample() {
            r.sample(json!({"configuration": cfg.name(), "grid": g.what, "points": tot.n}));
        }
        let mut m = json!({
            "configuration": cfg.name(),
            "grid": g.what,
            "grid_level": if g.full { "full documented domain" } else { "reduced" },
            "points": tot.n,
            "max_abs_error_units": tot.max_err,
            "argmax": [tot.max_err_at.0, tot.max_err_at.1],
            "tolerance_at_argmax_units": tot.max_err_tol,
            "max_error_over_tolerance": tot.max_ratio,
            "argmax_ratio": [tot.max_ratio_at.0, tot.max_ratio_at.1],
            "points_over_tolerance": tot.n_bad.iter().sum::<u64>(),
        });
        if source_reference(cfg, (0, 0)).is_some() {
            m["max_abs_error_vs_source_reference_units"] = json!(tot.max_err_src);
        }
        if debug {
            eprintln!(
                "{:70} n={:8} max_err={:12.3} at {:?} tol={:9.3} ratio={:9.3} at {:?} bad={:?} src={:.3} {}",
                cfg.name(),
                tot.n,
                tot.max_err,
                tot.max_err_at,
                tot.max_err_tol,
                tot.max_ratio,
                tot.max_ratio_at,
                tot.n_bad,
                tot.max_err_src,
                tot.error.clone().unwrap_or_default()
            );
        }
        // a piecewise-linear configuration whose buckets are narrower than one unit of the input grid has no
        // approximation to speak of; the operation may reject it with an error (a panic is still a violation)
        let sub_unit_buckets = cfg.op.is_pwl() && {
            let (_, width, lb) = pwl_geometry(cfg);
            (width >> lb) == 0
        };
        if let Some(e) = tot.error.as_ref().filter(|e| sub_unit_buckets && e.starts_with("build error")) {
            m["rejected"] = json!(e);
            r.count("configurations_rejected_buckets_below_one_grid_unit", 1);
        } else if let Some(e) = &tot.error {
            m["error"] = json!(e);
            r.violation(
                &cfg.signature("evaluation-failed"),
                &format!("{} cannot be built/evaluated on its documented domain: {}", cfg.name(), e),
                json!({"kind": "plain-error", "cfg": cfg.to_json(), "grid": g.what, "full_grid": g.full, "error": e}),
            );
        }
        for sev in 0..KINDS {
            if let Some((_, b)) = &tot.worst_bad[sev] {
                r.count("violating_cases", tot.n_bad[sev] - 1);
                let vs_src = match b.src {
                    Some((v, t)) => format!(
                        " (closed form tabulated by the source: {:.3}, distance {:.3}, stated bound + rounding {:.3})",
                        v, (b.observed as f64 - v).abs(), t
                    ),
                    None => String::new(),
                };
                r.violation(
                    &cfg.signature(kind_name(cfg, sev)),
                    &format!(
                        "{} [parameter: {}]: at input {:?} the result {} differs from the exact value {:.3} by {:.3} grid units, allowed {:.3}{}; {} of {} swept points exceed the bound (this kind; the worst one is shown), maximum absolute error of the configuration {:.3} at {:?}",
                        cfg.name(), cfg.k_class(), b.pt, b.observed, b.exact, (b.observed as f64 - b.exact).abs(), b.tol, vs_src,
                        tot.n_bad[sev], tot.n, tot.max_err, tot.max_err_at
                    ),
                    bad_case(cfg, b),
                );
            }
        }
        measured.push(m);
    }
    r.extra("measured_per_configuration", J::Array(measured));

    if std::env::var("C20_NOSECURE").is_err() {
        secure_part(r, debug);
    }

    r.extra("all_configurations_on_full_documented_domain", json!(all_full));
    r.finish(
        "exploration",
        "per configuration (operation x parameters incl. default and default-1 iterations/terms and log_buckets 4,5,6 x INT64/UINT64 x \
         internal / lowest / highest admissible supplied initial approximation) every representable input of the documented domain \
         (NewtonInversion/GoldschmidtDivision: (0,2^(cap-1)) resp. its square; InverseSqrt: (0,min(2^(2cap-1),2^21)); PWL operations: \
         [-16,16]; TaylorExponent: [-16,(31-p)ln2); FixedMultiply: product grids) is evaluated as arrays through \
         instantiate+inline+SimpleEvaluator and compared point-wise with the f64 exact function. Configurations marked 'reduced' in \
         measured_per_configuration (cost: 0.3-1 ms per point for bit-level initial approximations / PWL selection) sweep an explicitly \
         listed sub-grid instead: a prefix of the domain or every n-th point plus +-8/+-16 neighbourhoods of all critical points (powers of \
         two, bucket boundaries and middles, multiples of ln 2, cut-offs, domain ends). Tolerance = bound stated by the source (sigmoid/gelu/gelu' \
         tables, +-1 unit Newton/InverseSqrt, 1% Goldschmidt/Taylor, 5% ApproxExponent in the tests' own metric) + 2 grid units; Goldschmidt \
         additionally iterations-1 units (one truncation of the running quotient per round); for default-1 iterations/terms, where the \
         source states nothing, the analytic residual of exact iterations from the worst internal start (1/2) is added; GELU/GELU': checked \
         against the closed form the source tabulates with the stated bound AND against the exact function with that bound plus the \
         distance of the closed form; FixedMultiply: strictly less than 1 unit from x*y/2^f. \
         distinct = (configuration, behaviour class: bit length of the input / PWL bucket or side / integer part of x/ln2 / sign pair). \
         Secure part: REGRESSION ORACLE only - compiled (party-owned inputs, output revealed to party 0, global-mode execution through E1, \
         real randomness with fixed seeds) vs plaintext on sub-grids of 2^8 (quick) / 2^9-2^10 (thorough) points, bound = 2 x maximum \
         measured on the unchanged tree",
        true,
        &[
            "nothing is sampled and no cap cuts an enumeration short; configurations on reduced grids (counter configurations_on_reduced_grid, listed in measured_per_configuration) are exhaustive over the listed sub-grid only, not over their documented domain",
            "tolerances are the source's own stated/tested bounds plus 2 grid units; the property itself gives no number",
            "GELU oracle is the exact x*Phi(x) (erf by power series / continued fraction, self-checked against known values)",
            "TaylorExponent has no documented domain; [-16, (31-p) ln 2) is taken from the comments in the code",
            "InverseSqrt's documented contract for a supplied approximation is checked in the literal reading (input*a) and in the reading its test uses (input*a^2)",
            "secure-vs-plaintext bounds are frozen measurements (regression oracle), not a claim of the source; three-party execution is not repeated here (C01/C02/C05)",
        ],
        &[
            "evaluations",
            "points_nontrivial",
            "points_with_given_approximation",
            "points_nondefault_parameter",
            "pwl_main_points",
            "pwl_left_points",
            "pwl_right_points",
            "pwl_bucket_boundary_points",
            "taylor_negative_points",
            "newton_type_points",
            "fixed_multiply_points",
            "secure_points",
            "secure_points_differing_from_plaintext",
        ],
    )
}

// ---------------------------------------------------------------------------------------------
// Compiled secure versions vs plaintext (regression oracle)
// ---------------------------------------------------------------------------------------------

/// metric of the secure-vs-plaintext deviation
#[derive(Clone, Copy, PartialEq, Eq, Debug)]
enum Metric {
    /// |secure - plain| in grid units
    Units,
    /// (|secure - plain| - 2 units, if positive) / (1 + max(|secure|, |plain|)) in parts per million
    /// (exponential: values span 12 orders of magnitude, a deviation in units says nothing)
    RelPpm,
}

struct SecureCase {
    cfg: Cfg,
    pts: Vec<(i64, i64)>,
    what: String,
    metric: Metric,
}

fn secure_cases(thorough: bool) -> Vec<SecureCase> {
    let mut out = vec![];
    // points per case: 2^8 (quick) / 2^10 (thorough; Newton: its whole domain, 2^9 - 1)
    let n: i64 = if thorough { 1024 } else { 256 };
    let step = 1024 / n;
    // ApproxSigmoid precision 10, 5 log-buckets: points spread over [-16, 16) hitting many residues mod the bucket width
    let pts: Vec<(i64, i64)> = (0..n).map(|j| j * step).map(|i| (-16384 + 32 * i + (7 * i) % 32, 0)).collect();
    out.push(SecureCase {
        cfg: Cfg { op: Op::Sigmoid, signed: true, k: 5, p: 10, k_default: 5, approx: Approx::Internal },
        pts,
        what: format!("x_i = -16384 + 32 i + (7 i mod 32), i = 0, {}, .. < 1024", step),
        metric: Metric::Units,
    });
    // NewtonInversion cap 10, 5 iterations: the documented domain (0, 512) (quick: odd x only)
    let nstep = if thorough { 1 } else { 2 };
    out.push(SecureCase {
        cfg: Cfg { op: Op::Newton, signed: true, k: 5, p: 10, k_default: 5, approx: Approx::Internal },
        pts: (1..512i64).step_by(nstep).map(|x| (x, 0)).collect(),
        what: format!("x = 1, {}, .. < 512", 1 + nstep),
        metric: Metric::Units,
    });
    // GoldschmidtDivision cap 10, 5 iterations: m x m pairs
    let m: i64 = if thorough { 32 } else { 16 };
    let gs = 32 / m;
    let vs: Vec<i64> = (0..m).map(|j| j * gs).map(|j| 1 + 16 * j + (5 * j) % 16).filter(|v| *v < 512).collect();
    let mut pts = vec![];
    for a in vs.iter() {
        for d in vs.iter() {
            pts.push((*a, *d));
        }
    }
    out.push(SecureCase {
        cfg: Cfg { op: Op::Gold, signed: true, k: 5, p: 10, k_default: 5, approx: Approx::Internal },
        pts,
        what: format!("(dividend, divisor) over v_j = 1 + 16 j + (5 j mod 16), j = 0, {}, .. < 32", gs),
        metric: Metric::Units,
    });
    // TaylorExponent precision 10, 5 terms: points over [-10, 13.95]
    let tn: i64 = if thorough { 512 } else { 256 };
    let ts = 512 / tn;
    out.push(SecureCase {
        cfg: Cfg { op: Op::Taylor, signed: true, k: 5, p: 10, k_default: 5, approx: Approx::Internal },
        pts: (0..tn).map(|j| j * ts).map(|i| (-10240 + 48 * i, 0)).collect(),
        what: format!("x_i = -10240 + 48 i, i = 0, {}, .. < 512", ts),
        metric: Metric::RelPpm,
    });
    out
}

#[derive(Clone, Debug)]
struct SecureResult {
    /// maximum of the metric (units or ppm)
    max_dev: i128,
    argmax: (i64, i64),
    seed_at: u64,
    plain_at: i128,
    secure_at: i128,
    /// number of (point, seed) pairs where compiled and plaintext differ at all
    differing: u64,
}

fn deviation(metric: Metric, plain: i128, secure: i128) -> i128 {
    let d = (secure - plain).abs();
    match metric {
        Metric::Units => d,
        Metric::RelPpm => {
            let m = 1 + plain.abs().max(secure.abs());
            (((d - 2).max(0) as f64) * 1e6 / (m as f64)).ceil() as i128
        }
    }
}

fn secure_eval(case: &SecureCase, seeds: &[u64], plain_seed: u64) -> Result<SecureResult, String> {
    let (cfg, pts) = (&case.cfg, &case.pts);
    let ctx = build(cfg, pts.len() as u64)?;
    let st = cfg.st();
    let inputs: Vec<Value> = columns(cfg, pts).iter().map(|c| to_value(c, &st)).collect();
    let plain = from_value(&eval_pipeline(&ctx, inputs.clone(), plain_seed)?, pts.len(), &st)?;
    // every input owned by a party (input i by party i mod 3), output revealed to party 0
    let owners: Vec<Owner> = (0..inputs.len()).map(|i| Owner::P((i % 3) as u8)).collect();
    let compiled = mpcx::compile(&ctx, &owners, &[0], &InlineMode::Simple)?;
    let plan = Plan::of_context(&compiled)?;
    let types = mpcx::input_types(&ctx);
    let mut zero = || 0u8;
    let gin = mpcx::global_inputs(&types, &owners, &inputs, &mut zero);
    let mut res = SecureResult { max_dev: -1, argmax: (0, 0), seed_at: 0, plain_at: 0, secure_at: 0, differing: 0 };
    for s in seeds {
        let out = mpcx::eval_compiled_global(&plan, &gin, *s, &mut RealRandomness)?;
        let sec = from_value(&out, pts.len(), &st)?;
        for i in 0..pts.len() {
            let d = deviation(case.metric, plain[i], sec[i]);
            if sec[i] != plain[i] {
                res.differing += 1;
            }
            if d > res.max_dev {
                res = SecureResult {
                    max_dev: d,
                    argmax: pts[i],
                    seed_at: *s,
                    plain_at: plain[i],
                    secure_at: sec[i],
                    differing: res.differing,
                };
            }
        }
    }
    Ok(res)
}

fn secure_seeds(r: &Report) -> Vec<u64> {
    let n = if r.tier.thorough() { SECURE_SEEDS_THOROUGH } else { SECURE_SEEDS_QUICK };
    (0..n).map(|i| (r.seed ^ 0xC20C20).wrapping_add(i)).collect()
}

fn secure_bound(cfg: &Cfg) -> (i128, i128) {
    SECURE_BOUNDS.iter().find(|b| b.0 == cfg.op.name()).map(|b| (b.1, b.2)).unwrap_or((0, 0))
}

fn secure_part(r: &Report, debug: bool) {
    let cases = secure_cases(r.tier.thorough());
    let seeds = secure_seeds(r);
    let plain_seed = r.seed;
    let results: Vec<Result<SecureResult, String>> =
        cases.par_iter().map(|c| secure_eval(c, &seeds, plain_seed)).collect();
    let mut measured = vec![];
    for (case, res) in cases.iter().zip(results.iter()) {
        let cfg = &case.cfg;
        let bound = secure_bound(cfg);
        let unit = if case.metric == Metric::Units { "grid units" } else { "ppm of the value (beyond 2 grid units)" };
        r.count("evaluations", case.pts.len() as u64 * seeds.len() as u64);
        r.count("secure_points", case.pts.len() as u64 * seeds.len() as u64);
        r.count("secure_configurations", 1);
        r.distinct_str(&format!("secure|{}", cfg.name()));
        match res {
            Err(e) => {
                if debug {
                    eprintln!("secure {:60} ERROR {}", cfg.name(), e);
                }
                measured.push(json!({"configuration": cfg.name(), "sub_grid": case.what, "error": e}));
                r.violation(
                    &format!("C20:secure:{}:compile-or-evaluation-failed", cfg.op.name()),
                    &format!("compiled {} cannot be compiled/evaluated: {}", cfg.name(), e),
                    json!({"kind": "secure", "cfg": cfg.to_json(), "sub_grid": case.what, "error": e,
                           "thorough": r.tier.thorough(), "seed": seeds[0]}),
                );
            }
            Ok(s) => {
                r.count("secure_points_differing_from_plaintext", s.differing);
                if debug {
                    eprintln!(
                        "secure {:60} n={} max_dev={} {} at {:?} (seed {}, plain {}, secure {}) differing={} bound {}",
                        cfg.name(), case.pts.len(), s.max_dev, unit, s.argmax, s.seed_at, s.plain_at, s.secure_at,
                        s.differing, bound.1
                    );
                }
                measured.push(json!({
                    "configuration": cfg.name(), "sub_grid": case.what, "points": case.pts.len(), "seeds": seeds.len(),
                    "metric": unit,
                    "max_deviation": s.max_dev.to_string(), "argmax": [s.argmax.0, s.argmax.1],
                    "plaintext_at_argmax": s.plain_at.to_string(), "compiled_at_argmax": s.secure_at.to_string(),
                    "point_seed_pairs_differing": s.differing,
                    "frozen_bound": bound.1.to_string(), "measured_when_frozen": bound.0.to_string(),
                    "label": "regression oracle: bound = 2 x maximum measured on the unchanged tree",
                }));
                if s.max_dev > bound.1 {
                    r.violation(
                        &format!("C20:secure:{}:deviation-above-frozen-bound", cfg.op.name()),
                        &format!(
                            "REGRESSION ORACLE: compiled {} deviates from plaintext by {} {} at input {:?} (plaintext {}, compiled {}), frozen bound {} (= 2 x {} measured on the unchanged tree)",
                            cfg.name(), s.max_dev, unit, s.argmax, s.plain_at, s.secure_at, bound.1, bound.0
                        ),
                        json!({"kind": "secure", "cfg": cfg.to_json(), "sub_grid": case.what, "seed": s.seed_at,
                               "thorough": r.tier.thorough(),
                               "pt": [s.argmax.0, s.argmax.1], "plain": s.plain_at.to_string(),
                               "secure": s.secure_at.to_string(), "bound": bound.1.to_string()}),
                    );
                }
            }
        }
    }
    r.extra("secure_vs_plaintext_regression", J::Array(measured));
}

// ---------------------------------------------------------------------------------------------
// Replay
// ---------------------------------------------------------------------------------------------

pub fn replay(r: &Report, rec: &J) -> i32 {
    let case = &rec["case"];
    let cfg = match Cfg::from_json(&case["cfg"]) {
        Some(c) => c,
        None => {
            println!("MACHINERY-ERROR property=C20 replay: cannot read the configuration");
            return 2;
        }
    };
    let kind = case["kind"].as_str().unwrap_or("");
    let pt = (case["pt"][0].as_i64().unwrap_or(0), case["pt"][1].as_i64().unwrap_or(0));
    match kind {
        "plain" => {
            let out = eval_points(&cfg, &[pt], r.seed);
            match out {
                Err(e) => {
                    println!("REPLAY C20 {} at {:?}: evaluation failed: {}", cfg.name(), pt, e);
                    1
                }
                Ok(o) => {
                    let e = expect(&cfg, pt, o[0]);
                    let err = (o[0] as f64 - e.exact).abs();
                    println!(
                        "REPLAY C20 {} input {:?}{}: observed {} expected {:.4} (exact function, grid units) error {:.4} allowed {:.4}",
                        cfg.name(),
                        pt,
                        if cfg.approx != Approx::Internal {
                            format!(" initial approximation {}", approx_value(&cfg, if cfg.op == Op::Gold { pt.1 } else { pt.0 }))
                        } else {
                            String::new()
                        },
                        o[0],
                        e.exact,
                        err,
                        e.tol
                    );
                    if let Some((v, t)) = e.src {
                        println!(
                            "REPLAY C20   closed form tabulated by the source {:.4}, distance {:.4}, allowed {:.4}",
                            v, (o[0] as f64 - v).abs(), t
                        );
                    }
                    if !(e.ratio(o[0]) <= 1.0) {
                        println!("REPLAY C20 reproduced");
                        1
                    } else {
                        println!("REPLAY C20 not reproduced");
                        0
                    }
                }
            }
        }
        "plain-error" => {
            let level = if case["full_grid"].as_bool().unwrap_or(false) { Level::Full } else { Level::Reduced };
            let g = grid(&cfg, level, r.tier.thorough());
            let n = g.pts.len().min(chunk_size(&cfg));
            match eval_points(&cfg, &g.pts[..n], r.seed) {
                Err(e) => {
                    println!("REPLAY C20 {}: evaluation failed: {}", cfg.name(), e);
                    println!("REPLAY C20 reproduced");
                    1
                }
                Ok(_) => {
                    println!("REPLAY C20 {}: evaluation succeeded; not reproduced", cfg.name());
                    0
                }
            }
        }
        "secure" => {
            let cases = secure_cases(case["thorough"].as_bool().unwrap_or(false));
            let c = match cases.iter().find(|c| c.cfg.name() == cfg.name()) {
                Some(c) => c,
                None => {
                    println!("MACHINERY-ERROR property=C20 replay: unknown secure configuration");
                    return 2;
                }
            };
            let seed = case["seed"].as_u64().unwrap_or(0);
            let bound = secure_bound(&cfg).1;
            match secure_eval(c, &[seed], r.seed) {
                Err(e) => {
                    println!("REPLAY C20 secure {}: failed: {}", cfg.name(), e);
                    println!("REPLAY C20 reproduced");
                    1
                }
                Ok(s) => {
                    println!(
                        "REPLAY C20 secure {} seed {}: max deviation {} ({:?}) at {:?} (plaintext {}, compiled {}), frozen regression bound {}",
                        cfg.name(), seed, s.max_dev, c.metric, s.argmax, s.plain_at, s.secure_at, bound
                    );
                    if s.max_dev > bound {
                        println!("REPLAY C20 reproduced");
                        1
                    } else {
                        println!("REPLAY C20 not reproduced");
                        0
                    }
                }
            }
        }
        _ => {
            println!("MACHINERY-ERROR property=C20 replay: unknown case kind '{}'", kind);
            2
        }
    }
}
