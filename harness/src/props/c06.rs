//! C06 - graph optimisation preserves meaning and interface.
//! Bounded-exhaustive inlined graphs (E2 recipes x decoration variants) and compiled contexts, executed node by
//! node before and after optimize_context with replayed randomness.
use super::c01;
use crate::common::{catch, hash_str, Report};
use crate::exec::{first_line, new_eval, run_global, Oracle, Plan};
use crate::gen::{self, Leaf, Recipe};
use crate::mpcx;
use crate::vals;
use ciphercore_base::custom_ops::MappedContext;
use ciphercore_base::data_types::{array_type, scalar_type, ScalarType, Type, BIT, INT32, UINT8};
use ciphercore_base::data_values::Value;
use ciphercore_base::evaluators::simple_evaluator::SimpleEvaluator;
use ciphercore_base::graphs::{contexts_deep_equal, create_context, Context, Node, NodeAnnotation, Operation};
use ciphercore_base::inline::inline_ops::InlineMode;
use ciphercore_base::optimizer::optimize::optimize_context;
use rayon::prelude::*;
use serde_json::{json, Value as J};
use std::collections::{BTreeSet, HashMap, HashSet};

pub const VARIANTS: [&str; 10] = [
    "plain",
    "unused-named-input",
    "dangling-node",
    "nop-send+private",
    "plus-random",
    "a2b-b2a-chain",
    "duplicated-step",
    "all-constant-leaves",
    "prf-mask",
    "commuted-step",
];

/// Builds the recipe with a decoration. Err = not applicable / rejected.
fn build_variant(r: &Recipe, variant: usize) -> Result<Context, String> {
    let rr = r.clone();
    let res = catch(move || -> ciphercore_base::errors::Result<Option<Context>> {
        let c = create_context()?;
        let g = c.create_graph()?;
        let mut nodes: Vec<Node> = vec![];
        if variant == 1 {
            let u = g.input(array_type(vec![3], INT32))?;
            u.set_name("unused_first")?;
        }
        for (li, l) in rr.leaves.iter().enumerate() {
            match l {
                Leaf::Input(t) => {
                    if variant == 7 {
                        // every leaf becomes a constant
                        let alph = gen::input_alphabet(t);
                        nodes.push(g.constant(t.clone(), alph[(li + 1) % alph.len()].clone())?);
                    } else {
                        let n = g.input(t.clone())?;
                        if variant == 1 {
                            n.set_name(&format!("in{}", li))?;
                        }
                        nodes.push(n);
                    }
                }
                Leaf::Const(t, e) => nodes.push(g.constant(t.clone(), vals::arr_value(e, &t.get_scalar_type()))?),
            }
        }
        if variant == 7 {
            // keep the input interface non-empty: one named, unused input
            let u = g.input(scalar_type(BIT))?;
            u.set_name("only_input")?;
        }
        if variant == 1 {
            let u = g.input(scalar_type(UINT8))?;
            u.set_name("unused_last")?;
        }
        for (si, s) in rr.steps.iter().enumerate() {
            let mut nn = gen::apply(&g, &nodes, s)?;
            if variant == 3 && si == 0 {
                nn = nn.nop()?;
                nn.add_annotation(NodeAnnotation::Send(1, 2))?;
            }
            if variant == 9 && si + 1 == rr.steps.len() {
                // the last step once more with its operands exchanged; both results are output
                let sw = match s.swapped() {
                    Some(sw) => sw,
                    None => return Ok(None),
                };
                let other = match gen::apply(&g, &nodes, &sw) {
                    Ok(n) => n,
                    Err(_) => return Ok(None),
                };
                nodes.push(nn.clone());
                nn = g.create_tuple(vec![nn.clone(), other])?;
            }
            if variant == 6 && si + 1 == rr.steps.len() {
                let dup = gen::apply(&g, &nodes, s)?;
                nodes.push(nn.clone());
                let t = g.create_tuple(vec![nn.clone(), dup])?;
                nn = t;
            }
            nodes.push(nn);
        }
        let mut out = nodes.last().unwrap().clone();
        match variant {
            2 => {
                let d = nodes[0].clone();
                let _dangling = g.create_tuple(vec![d.clone(), d])?.tuple_get(1)?.nop()?;
            }
            3 => {
                out.add_annotation(NodeAnnotation::Private)?;
                let o2 = out.nop()?;
                o2.add_annotation(NodeAnnotation::Send(0, 1))?;
                out = o2.nop()?;
            }
            4 => {
                let t = out.get_type()?;
                let rnd = g.random(t.clone())?;
                let rnd2 = g.random(t.clone())?;
                out = if t.is_array() || t.is_scalar() {
                    out.add(rnd)?.subtract(rnd2)?
                } else {
                    g.create_tuple(vec![out, rnd, rnd2])?
                };
            }
            5 => {
                let t = out.get_type()?;
                if !(t.is_array() || t.is_scalar()) {
                    return Ok(None);
                }
                let st = t.get_scalar_type();
                if st == BIT {
                    // bit array [.., 8] -> u8 -> bits -> i8-typed view
                    out = out.b2a(UINT8)?.a2b()?.b2a(ScalarType::I8)?.a2b()?;
                } else {
                    out = out.a2b()?.b2a(st)?.a2b()?.b2a(st)?;
                }
            }
            8 => {
                let t = out.get_type()?;
                if !(t.is_array() || t.is_scalar()) {
                    return Ok(None);
                }
                let key = g.random(array_type(vec![128], BIT))?;
                let m1 = g.add_node(vec![key.clone()], vec![], Operation::PRF(1, t.clone()))?;
                let m2 = g.add_node(vec![key], vec![], Operation::PRF(2, t.clone()))?;
                out = out.add(m1.clone())?.subtract(m2)?.add(m1)?;
            }
            _ => {}
        }
        g.set_output_node(out)?;
        g.finalize()?;
        c.set_main_graph(g)?;
        c.finalize()?;
        Ok(Some(c))
    });
    match res {
        Ok(Ok(Some(c))) => Ok(c),
        Ok(Ok(None)) => Err("not applicable".into()),
        Ok(Err(e)) => Err(first_line(&e.to_string())),
        Err(p) => Err(format!("panic: {}", p)),
    }
}

/// Random nodes of the optimised graph answer with the value their pre-image drew.
struct ReplayRandom {
    script: HashMap<usize, Value>,
    missing: usize,
}
impl Oracle for ReplayRandom {
    fn random(&mut self, _p: usize, idx: usize, _t: &Type) -> Option<Value> {
        match self.script.get(&idx) {
            Some(v) => Some(v.clone()),
            None => {
                self.missing += 1;
                None
            }
        }
    }
    fn random_perm(&mut self, _p: usize, idx: usize, _n: u64) -> Option<Value> {
        self.script.get(&idx).cloned()
    }
}

fn send_set(n: &Node) -> BTreeSet<(u64, u64)> {
    n.get_annotations()
        .unwrap_or_default()
        .into_iter()
        .filter_map(|a| if let NodeAnnotation::Send(s, r) = a { Some((s, r)) } else { None })
        .collect()
}

fn live_nodes(g: &ciphercore_base::graphs::Graph) -> HashSet<u64> {
    let mut seen = HashSet::new();
    let mut stack = vec![g.get_output_node().unwrap()];
    while let Some(n) = stack.pop() {
        if seen.insert(n.get_id()) {
            for d in n.get_node_dependencies() {
                stack.push(d);
            }
        }
    }
    seen
}

pub struct Stats {
    pub evals: u64,
    pub nodes_compared: u64,
    pub removed_nodes: u64,
    pub sends_checked: u64,
    pub randoms_replayed: u64,
}

/// The whole oracle for one context. Err((kind, message)).
pub fn check_context(ctx: &Context, inputs: &[Vec<Value>], st: &mut Stats) -> Result<(), (String, String)> {
    let c2 = ctx.clone();
    let opt: MappedContext = match catch(move || optimize_context(&c2, SimpleEvaluator::new(Some([5u8; 16])).unwrap())) {
        Ok(Ok(o)) => o,
        Ok(Err(e)) => return Err(("optimize-error".into(), first_line(&e.to_string()))),
        Err(p) => return Err(("optimize-panic".into(), p)),
    };
    let octx = opt.get_context();
    let g = ctx.get_main_graph().unwrap();
    let og = octx.get_main_graph().map_err(|e| ("no-main-graph".to_string(), e.to_string()))?;
    let plan = Plan::new(&g).map_err(|e| ("not-inlined".to_string(), e))?;
    let oplan = Plan::new(&og).map_err(|e| ("optimised-not-inlined".to_string(), e))?;
    // (3) input interface
    let ins = |p: &Plan| -> Vec<(Type, Option<String>)> {
        p.inputs.iter().map(|i| (p.nodes[*i].ty.clone(), p.nodes[*i].node.get_name().unwrap_or(None))).collect()
    };
    let (a, b) = (ins(&plan), ins(&oplan));
    if a != b {
        return Err(("input-interface-changed".into(), format!("inputs before {:?} after {:?}", a.iter().map(|x| (format!("{}", x.0), x.1.clone())).collect::<Vec<_>>(), b.iter().map(|x| (format!("{}", x.0), x.1.clone())).collect::<Vec<_>>())));
    }
    // forward map original node id -> optimised node id (main graph)
    let mut fwd: HashMap<usize, usize> = HashMap::new();
    for pn in plan.nodes.iter() {
        if opt.mappings.contains_node(&pn.node) {
            let im = opt.mappings.get_node(&pn.node);
            if im.get_graph() == og {
                fwd.insert(pn.node.get_id() as usize, im.get_id() as usize);
            } else {
                return Err(("image-in-foreign-graph".into(), format!("node {} maps outside the optimised main graph", pn.node.get_id())));
            }
        } else {
            st.removed_nodes += 1;
        }
    }
    let live = live_nodes(&g);
    // the output must stay mapped to the output
    match fwd.get(&plan.output) {
        Some(o) if *o == oplan.output => {}
        other => return Err(("output-not-mapped-to-output".into(), format!("output node {} maps to {:?}, optimised output is {}", plan.output, other, oplan.output))),
    }
    // (4) Send annotations
    for pn in plan.nodes.iter() {
        let s = send_set(&pn.node);
        if s.is_empty() || !live.contains(&pn.node.get_id()) {
            continue;
        }
        st.sends_checked += 1;
        match fwd.get(&(pn.node.get_id() as usize)) {
            None => return Err(("send-node-dropped".into(), format!("output-relevant node {} with Send {:?} has no image", pn.node.get_id(), s))),
            Some(im) => {
                let t = send_set(&oplan.nodes[*im].node);
                if !s.is_subset(&t) {
                    return Err(("send-annotation-lost".into(), format!("node {} carries Send {:?}, its image {} carries {:?}", pn.node.get_id(), s, im, t)));
                }
            }
        }
    }
    let mut origin_sends: HashMap<usize, BTreeSet<(u64, u64)>> = HashMap::new();
    for pn in plan.nodes.iter() {
        if let Some(im) = fwd.get(&(pn.node.get_id() as usize)) {
            origin_sends.entry(*im).or_default().extend(send_set(&pn.node));
        }
    }
    for on in oplan.nodes.iter() {
        let t = send_set(&on.node);
        if !t.is_empty() {
            let have = origin_sends.get(&(on.node.get_id() as usize)).cloned().unwrap_or_default();
            if !t.is_subset(&have) {
                return Err(("send-annotation-invented".into(), format!("optimised node {} carries Send {:?} but the original nodes mapping to it carry {:?}", on.node.get_id(), t, have)));
            }
        }
    }
    // (5) reload: serde round trip re-adds every node through type inference
    let txt = serde_json::to_string(&octx).map_err(|e| ("serialize-error".to_string(), e.to_string()))?;
    let t2 = txt.clone();
    let reloaded: Context = match catch(move || serde_json::from_str::<Context>(&t2)) {
        Ok(Ok(c)) => c,
        Ok(Err(e)) => return Err(("reload-error".into(), first_line(&e.to_string()))),
        Err(p) => return Err(("reload-panic".into(), p)),
    };
    if !contexts_deep_equal(&octx, &reloaded) {
        return Err(("reload-not-deep-equal".into(), "optimised context differs from its reloaded copy".into()));
    }
    let rg = reloaded.get_main_graph().unwrap();
    for (x, y) in og.get_nodes().iter().zip(rg.get_nodes().iter()) {
        let (tx, ty) = (x.get_type(), y.get_type());
        match (tx, ty) {
            (Ok(a), Ok(b)) if a == b => {}
            (a, b) => return Err(("stored-type-differs-from-inferred".into(), format!("node {} ({}): stored {:?}, re-inferred {:?}", x.get_id(), x.get_operation(), a.map(|t| format!("{}", t)).ok(), b.map(|t| format!("{}", t)).ok()))),
        }
    }
    let rplan = Plan::new(&rg).map_err(|e| ("reloaded-not-inlined".to_string(), e))?;
    // (1) (2) values, with replayed randomness
    for (k, iv) in inputs.iter().enumerate() {
        let mut ev = new_eval(17 + k as u64);
        let orig = match run_global(&plan, iv, &mut ev, &mut crate::exec::RealRandomness) {
            Ok(v) => v,
            Err(_) => continue, // the original itself fails on this input (data precondition): nothing to preserve
        };
        st.evals += 1;
        let mut script = HashMap::new();
        for pn in plan.nodes.iter() {
            if pn.op.is_randomizing().unwrap_or(false) {
                if let Some(im) = fwd.get(&(pn.node.get_id() as usize)) {
                    script.insert(*im, orig[pn.node.get_id() as usize].clone());
                    st.randoms_replayed += 1;
                }
            }
        }
        for (which, p) in [("optimised", &oplan), ("reloaded", &rplan)] {
            let mut oracle = ReplayRandom { script: script.clone(), missing: 0 };
            let mut ev2 = new_eval(99);
            let res = match run_global(p, iv, &mut ev2, &mut oracle) {
                Ok(v) => v,
                Err((i, m)) => return Err((format!("{}-evaluation-fails", which), format!("node {} ({}): {}", i, p.nodes[i].op, m))),
            };
            if oracle.missing > 0 && live_has_random(p) {
                return Err(("random-node-without-preimage".into(), format!("{} graph draws {} random values that no original node drew", which, oracle.missing)));
            }
            if res[p.output] != orig[plan.output] {
                return Err((format!("{}-output-differs", which), format!("output {} instead of {}", vals::show(&res[p.output], &p.nodes[p.output].ty), vals::show(&orig[plan.output], &plan.nodes[plan.output].ty))));
            }
            if which == "optimised" {
                for (o, im) in fwd.iter() {
                    st.nodes_compared += 1;
                    if res[*im] != orig[*o] {
                        return Err(("mapped-node-value-differs".into(), format!("original node {} ({}) = {} but its image {} ({}) = {}", o, plan.nodes[*o].op, vals::show(&orig[*o], &plan.nodes[*o].ty), im, p.nodes[*im].op, vals::show(&res[*im], &p.nodes[*im].ty))));
                    }
                }
            }
        }
    }
    Ok(())
}

fn live_has_random(p: &Plan) -> bool {
    let live = live_nodes(&p.graph);
    p.nodes.iter().any(|n| live.contains(&n.node.get_id()) && matches!(n.op, Operation::Random(_)))
}

fn recipes(thorough: bool) -> Vec<Recipe> {
    let mut out = vec![];
    let mut seen = HashSet::new();
    let mut fams = gen::families(thorough);
    // constant sub-expressions: two constant leaves next to an input
    let i32_2 = array_type(vec![2], INT32);
    fams.push(vec![Leaf::Const(i32_2.clone(), vec![7, 9]), Leaf::Const(i32_2.clone(), vec![1, (-3i128) as u128]), Leaf::Input(i32_2)]);
    for (fi, leaves) in fams.into_iter().enumerate() {
        let base = Recipe { leaves: leaves.clone(), steps: vec![] };
        let base_types: Vec<Type> = leaves.iter().map(|l| match l { Leaf::Input(t) => t.clone(), Leaf::Const(t, _) => t.clone() }).collect();
        for (rec, tys) in gen::extend(&base, &base_types) {
            if seen.insert(rec.desc()) {
                out.push(rec.clone());
            }
            // quick: depth 2 on every family except the two 4-leaf ones (their n-ary steps are depth-1 material)
            if !thorough && leaves.len() >= 4 {
                continue;
            }
            for (rec2, tys2) in gen::extend(&rec, &tys) {
                if seen.insert(rec2.desc()) {
                    out.push(rec2.clone());
                }
                // depth 3: a unary step on top of a unary step on top of anything (getter chains such as
                // Zip -> VectorGet -> TupleGet, conversion chains); quick: the two basic families
                if (thorough || fi < 2) && rec2.steps[1].operands().len() == 1 {
                    for (rec3, _) in gen::extend(&rec2, &tys2) {
                        if rec3.steps[2].operands().len() == 1 && seen.insert(rec3.desc()) {
                            out.push(rec3);
                        }
                    }
                }
            }
        }
    }
    out
}

pub fn run(r: &Report) -> i32 {
    let thorough = r.tier.thorough();
    let recs = recipes(thorough);
    r.count("recipes", recs.len() as u64);
    let n_inputs = if thorough { 4 } else { 2 };
    // part 1: generated inlined graphs x decoration variants
    let results: Vec<Vec<(usize, Result<Stats, (String, String)>, String)>> = recs
        .par_iter()
        .map(|rec| {
            let mut v = vec![];
            for variant in 0..VARIANTS.len() {
                let ctx = match build_variant(rec, variant) {
                    Ok(c) => c,
                    Err(_) => continue,
                };
                let types = mpcx::input_types(&ctx);
                let inputs = gen::input_vectors(&types, n_inputs);
                let mut st = Stats { evals: 0, nodes_compared: 0, removed_nodes: 0, sends_checked: 0, randoms_replayed: 0 };
                let res = check_context(&ctx, &inputs, &mut st);
                let txt = if res.is_err() { serde_json::to_string(&ctx).unwrap() } else { String::new() };
                v.push((variant, res.map(|_| st), txt));
            }
            v
        })
        .collect();
    for (rec, per) in recs.iter().zip(results.into_iter()) {
        for (variant, res, txt) in per {
            r.count("programs", 1);
            r.count(&format!("variant_{}", VARIANTS[variant]), 1);
            match res {
                Ok(st) => {
                    r.count("evaluations", st.evals);
                    r.count("mapped_nodes_compared", st.nodes_compared);
                    r.count("nodes_removed_by_optimizer", st.removed_nodes);
                    r.count("send_annotations_checked", st.sends_checked);
                    r.count("random_draws_replayed", st.randoms_replayed);
                    if st.removed_nodes > 0 {
                        r.count("programs_changed_by_optimizer", 1);
                        r.distinct(hash_str(&format!("{}{}", rec.desc(), variant)));
                    }
                    if r.want_sample() && st.removed_nodes > 2 {
                        r.sample(json!({"recipe": rec.desc(), "variant": VARIANTS[variant], "nodes_removed": st.removed_nodes, "mapped_nodes_compared": st.nodes_compared}));
                    }
                }
                Err((kind, msg)) => {
                    let class = c01::recipe_prog(rec).class;
                    r.violation(
                        &format!("C06:{}:{}", kind, VARIANTS[variant]),
                        &format!("{} variant {} [{}]: {}", rec.desc(), VARIANTS[variant], class, msg),
                        json!({"context": txt, "n_inputs": n_inputs, "kind": "generated"}),
                    );
                }
            }
        }
    }
    // part 2: the optimiser's real workload - compiled contexts before the final optimisation
    let progs: Vec<c01::Prog> = {
        let mut p = c01::generated_programs(r);
        p.retain(|x| x.outs.is_none());
        if !thorough {
            p = p.into_iter().step_by(3).collect();
        }
        p.extend(super::curated::programs(false));
        p
    };
    let compiled: Vec<Option<Result<Stats, (String, String, String)>>> = progs
        .par_iter()
        .map(|p| {
            let ctx = (p.build)().ok()?;
            let n = mpcx::input_types(&ctx).len();
            let owners = c01::covering_owners(n);
            let ov = &owners[hash_str(&p.desc) as usize % owners.len()];
            let outs: Vec<u8> = if hash_str(&p.desc) % 2 == 0 { vec![0] } else { vec![] };
            let pre = unoptimised_compiled(&ctx, ov, &outs)?;
            let ptypes = mpcx::input_types(&pre);
            let src_types = mpcx::input_types(&ctx);
            let plain = gen::input_vectors(&src_types, 2);
            let inputs: Vec<Vec<Value>> = plain.iter().map(|iv| mpcx::global_inputs(&src_types, ov, iv, &mut || 0x2D)).collect();
            let _ = ptypes;
            let has_opaque_random = pre.get_main_graph().unwrap().get_nodes().iter().any(|n| matches!(n.get_operation(), Operation::CuckooToPermutation | Operation::DecomposeSwitchingMap(_)));
            if has_opaque_random {
                return None;
            }
            let mut st = Stats { evals: 0, nodes_compared: 0, removed_nodes: 0, sends_checked: 0, randoms_replayed: 0 };
            match check_context(&pre, &inputs, &mut st) {
                Ok(()) => Some(Ok(st)),
                Err((k, m)) => Some(Err((k, m, serde_json::to_string(&pre).unwrap()))),
            }
        })
        .collect();
    for (p, res) in progs.iter().zip(compiled.into_iter()) {
        match res {
            None => r.count("compiled_contexts_skipped", 1),
            Some(Ok(st)) => {
                r.count("compiled_contexts", 1);
                r.count("evaluations", st.evals);
                r.count("mapped_nodes_compared", st.nodes_compared);
                r.count("nodes_removed_by_optimizer", st.removed_nodes);
                r.count("send_annotations_checked", st.sends_checked);
                r.count("random_draws_replayed", st.randoms_replayed);
                r.distinct(hash_str(&format!("compiled{}", p.desc)));
            }
            Some(Err((kind, msg, txt))) => r.violation(
                &format!("C06:{}:compiled", kind),
                &format!("compiled {}: {}", p.desc, msg),
                json!({"context": txt, "kind": "compiled", "desc": p.desc}),
            ),
        }
    }
    r.finish(
        "exploration",
        "part 1: every builder-accepted recipe of depth 1-2 (thorough: unary depth 3) over the E2 alphabet (tuples/vectors/zip and getters, A2B/B2A, duplicated operands, constants incl. constant sub-expressions) x 10 decoration variants (plain, unused named inputs, dangling nodes, annotated NOPs + Private, Random nodes, A2B/B2A chains, duplicated steps, all-constant leaves, PRF masks, the last binary step repeated with its operands exchanged) x boundary input vectors; part 2: MPC-compiled contexts of the C01 space before their final optimisation. Oracle: node-by-node execution before/after with replayed random draws - mapped nodes equal, same output, same input interface (number, order, type, name), Send annotations kept on same-valued nodes and none invented, serde reload deep-equal with stored types == re-inferred types, reloaded context evaluates identically. distinct = programs the optimiser actually changed + compiled contexts",
        true,
        &["optimised graphs with CuckooToPermutation/DecomposeSwitchingMap (internal random draws that cannot be replayed) are skipped in part 2"],
        &["evaluations", "programs", "programs_changed_by_optimizer", "mapped_nodes_compared", "send_annotations_checked", "random_draws_replayed", "compiled_contexts"],
    )
}

/// the compiler pipeline up to (not including) the final optimize_context
fn unoptimised_compiled(ctx: &Context, owners: &[mpcx::Owner], outs: &[u8]) -> Option<Context> {
    use ciphercore_base::mpc::mpc_compiler::{prepare_context, prepare_for_mpc_evaluation, IOStatus};
    let ins: Vec<IOStatus> = owners.iter().map(|o| o.status()).collect();
    let outs: Vec<IOStatus> = outs.iter().map(|i| IOStatus::Party(*i as u64)).collect();
    let cfg = mpcx::inline_config(&InlineMode::Simple);
    let c = ctx.clone();
    match catch(move || -> ciphercore_base::errors::Result<Context> {
        let p = prepare_context(c, cfg.clone(), SimpleEvaluator::new(Some([7u8; 16]))?, false)?;
        let m = prepare_for_mpc_evaluation(&p.get_context(), vec![ins], vec![outs], cfg)?;
        Ok(m.get_context())
    }) {
        Ok(Ok(c)) => Some(c),
        _ => None,
    }
}

pub fn replay(_r: &Report, rec: &J) -> i32 {
    let case = &rec["case"];
    let ctx: Context = match serde_json::from_str(case["context"].as_str().unwrap_or("")) {
        Ok(c) => c,
        Err(e) => {
            println!("cannot load context: {}", e);
            return 2;
        }
    };
    let types = mpcx::input_types(&ctx);
    let inputs = gen::input_vectors(&types, case["n_inputs"].as_u64().unwrap_or(2) as usize);
    let mut st = Stats { evals: 0, nodes_compared: 0, removed_nodes: 0, sends_checked: 0, randoms_replayed: 0 };
    match check_context(&ctx, &inputs, &mut st) {
        Ok(()) => {
            println!("optimised context preserves values, interface, annotations and types (violation does not reproduce)");
            0
        }
        Err((k, m)) => {
            println!("observed : {} - {}", k, m);
            1
        }
    }
}
