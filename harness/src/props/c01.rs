//! C01 - the compiled protocol computes the same function as the source graph (global execution), and
//! the shared engine that C02 (three-party execution) reuses.
use crate::common::{catch, hash_str, Report, SplitMix};
use crate::exec::{new_eval, run_global, Oracle, Plan, RealRandomness};
use crate::gen::{self, Leaf, Recipe};
use crate::mpcx::{self, Owner};
use crate::vals;
use ciphercore_base::data_types::Type;
use ciphercore_base::data_values::Value;
use ciphercore_base::evaluators::Evaluator;
use ciphercore_base::graphs::{Context, Operation};
use rayon::prelude::*;
use serde_json::{json, Value as J};
use std::collections::{BTreeMap, HashSet};
use std::sync::Arc;

#[derive(Clone, Copy, PartialEq, Eq)]
pub enum Which {
    Global,
    ThreeParty,
}

pub type Builder = Arc<dyn Fn() -> Result<Context, String> + Send + Sync>;

#[derive(Clone)]
pub struct Prog {
    pub desc: String,
    /// class used in violation signatures (set of operations)
    pub class: String,
    pub build: Builder,
    /// how many owner vectors to cross (None = all 5^n)
    pub owners: Option<Vec<Vec<Owner>>>,
    /// output-party subsets to cross (None = all 8)
    pub outs: Option<Vec<Vec<u8>>>,
    /// custom input vectors (None = generated alphabet)
    pub inputs: Option<Arc<dyn Fn() -> Vec<Vec<Value>> + Send + Sync>>,
    /// an Err containing this text from the compiled evaluation is an allowed abort
    pub allowed_abort: Option<&'static str>,
}

pub fn recipe_prog(r: &Recipe) -> Prog {
    let rr = r.clone();
    let mut ops: Vec<String> = r
        .steps
        .iter()
        .map(|s| format!("{:?}", s).split('(').next().unwrap().to_string())
        .collect();
    ops.sort();
    ops.dedup();
    Prog {
        desc: r.desc(),
        class: ops.join("+"),
        build: Arc::new(move || gen::build(&rr).map(|b| b.ctx)),
        owners: None,
        outs: None,
        inputs: None,
        allowed_abort: None,
    }
}

/// PRF outputs replaced by a constant byte pattern (keys stay real): a degenerate but admissible tape.
pub struct ConstPrf(pub u8);
impl Oracle for ConstPrf {
    fn prf(&mut self, _p: usize, _i: usize, _k: &[u8], _iv: u64, t: &Type) -> Option<Value> {
        let b = self.0;
        Some(vals::pattern_value(t, &mut || b))
    }
    fn perm_prf(&mut self, _p: usize, _i: usize, _k: &[u8], _iv: u64, n: u64) -> Option<Value> {
        let v: Vec<u64> = if self.0 == 0 { (0..n).collect() } else { (0..n).rev().collect() };
        Value::from_flattened_array_u64(&v, ciphercore_base::data_types::UINT64).ok()
    }
}

/// Degenerate randomness of the hash-based join: the PRF value that holds the three Cuckoo/simple hash
/// functions (a bit array [3, m, PRF output size]) is answered by the harness - pseudo-random bits derived from (key, counter,
/// seed), with hash function `1` overwritten by hash function `0` (pair index 0: functions 0,1; 1: 0,2; 2: 1,2).
/// Every key is then sent to the same cell by two of the three functions: the event "a matched row is found in
/// two of the switched Cuckoo tables" (probability about 2/(128 rows) per matched row with real randomness) happens
/// for every matched row. Both parties holding the key get the same answer (function of key and counter only).
pub struct HashCollide(pub usize, pub u64);
/// number of PRF answers given by `HashCollide` (non-vacuity of the identical-hash-function tapes)
pub static HASH_COLLIDE_HITS: std::sync::atomic::AtomicU64 = std::sync::atomic::AtomicU64::new(0);
impl Oracle for HashCollide {
    fn prf(&mut self, _p: usize, _i: usize, k: &[u8], iv: u64, t: &Type) -> Option<Value> {
        if let Type::Array(shape, st) = t {
            if *st == ciphercore_base::data_types::BIT && shape.len() == 3 && shape[0] == 3 {
                HASH_COLLIDE_HITS.fetch_add(1, std::sync::atomic::Ordering::Relaxed);
                let mut h = self.1 ^ iv.wrapping_mul(0x9E3779B97F4A7C15);
                for b in k {
                    h = (h ^ *b as u64).wrapping_mul(0x100000001B3);
                }
                let mut sm = SplitMix(h);
                let per = (shape[1] * shape[2]) as usize;
                let mut bits: Vec<u128> = (0..3 * per).map(|_| (sm.next() & 1) as u128).collect();
                let (a, b) = [(0usize, 1usize), (0, 2), (1, 2)][self.0 % 3];
                for i in 0..per {
                    bits[b * per + i] = bits[a * per + i];
                }
                return Some(vals::arr_value(&bits, st));
            }
        }
        None
    }
}

pub fn tape_by_name(name: &str) -> Box<dyn Oracle> {
    match name {
        "prf-zero" => Box::new(ConstPrf(0)),
        "prf-ones" => Box::new(ConstPrf(0xFF)),
        "hash-01" => Box::new(HashCollide(0, 1)),
        "hash-02" => Box::new(HashCollide(1, 2)),
        "hash-12" => Box::new(HashCollide(2, 3)),
        _ => Box::new(RealRandomness),
    }
}

pub struct Budget {
    pub max_inputs: usize,
    pub extra_seeds: u64,
    pub tapes: Vec<&'static str>,
    pub junk: Vec<&'static str>,
    pub seed_sets: usize,
}

pub fn junk_source(name: &str, seed: u64) -> Box<dyn FnMut() -> u8> {
    match name {
        "zeros" => Box::new(|| 0u8),
        "ones" => Box::new(|| 0xFFu8),
        _ => {
            let mut sm = SplitMix(seed ^ 0xA5A5_1234);
            let mut buf: Vec<u8> = vec![];
            Box::new(move || {
                if buf.is_empty() {
                    buf = sm.bytes(64);
                }
                buf.pop().unwrap()
            })
        }
    }
}

fn vals_json(vs: &[Value]) -> J {
    J::Array(vs.iter().map(|v| serde_json::to_value(v).unwrap()).collect())
}
fn vals_from_json(j: &J) -> Vec<Value> {
    j.as_array()
        .map(|a| a.iter().map(|x| serde_json::from_value::<Value>(x.clone()).unwrap()).collect())
        .unwrap_or_default()
}

pub fn owners_json(o: &[Owner]) -> J {
    J::Array(o.iter().map(|x| json!(x.name())).collect())
}
pub fn owners_from_json(j: &J) -> Vec<Owner> {
    j.as_array()
        .unwrap()
        .iter()
        .map(|x| match x.as_str().unwrap() {
            "P0" => Owner::P(0),
            "P1" => Owner::P(1),
            "P2" => Owner::P(2),
            "pub" => Owner::Public,
            _ => Owner::Shared,
        })
        .collect()
}

/// One (program, owner vector) task: all output subsets x modes x inputs x tapes.
fn run_task(r: &Report, which: Which, prog: &Prog, owners: &[Owner], b: &Budget) {
    let id = &r.id;
    let ctx = match (prog.build)() {
        Ok(c) => c,
        Err(_) => return,
    };
    let types = mpcx::input_types(&ctx);
    let out_t = mpcx::output_type(&ctx);
    let inputs: Vec<Vec<Value>> = match &prog.inputs {
        Some(f) => f(),
        None => gen::input_vectors(&types, b.max_inputs),
    };
    // expected plaintext results (library evaluator on the source graph)
    let mut cases: Vec<(Vec<Value>, Value)> = vec![];
    for iv in inputs {
        if let Ok(e) = mpcx::eval_plain(&ctx, &iv, 1) {
            cases.push((iv, e));
        } else {
            r.count("inputs_rejected_by_plain_evaluation", 1);
        }
    }
    if cases.is_empty() {
        return;
    }
    let src_txt = serde_json::to_string(&ctx).unwrap();
    // If the three inline modes give one and the same compiled context for the first output subset, the computation
    // part of this (program, owner vector) contains nothing the modes treat differently (the reveal step never
    // does), so the remaining output subsets are compiled in the first mode only; the skipped ones are counted.
    let mut mode_insensitive = false;
    let all_outs = prog.outs.clone().unwrap_or_else(mpcx::output_subsets);
    for (oi, outs) in all_outs.into_iter().enumerate() {
        let mut seen_compiled: HashSet<u64> = HashSet::new();
        for (mi, (mname, mode)) in mpcx::modes().into_iter().enumerate() {
            r.count("configurations", 1);
            if mode_insensitive && mi > 0 {
                r.count("configurations_mode_skipped_as_insensitive", 1);
                continue;
            }
            let compiled = match mpcx::compile(&ctx, owners, &outs, &mode) {
                Ok(c) => c,
                Err(e) => {
                    if e.starts_with("panic") {
                        r.violation(
                            &format!("{}:{}:compile-panic", id, prog.class),
                            &format!("compiler panics on {}: {}", prog.desc, e),
                            json!({"context": src_txt, "owners": owners_json(owners), "outs": outs, "mode": mname, "kind": "compile"}),
                        );
                    }
                    r.count("compile_rejected", 1);
                    continue;
                }
            };
            let ctxt = serde_json::to_string(&compiled).unwrap();
            if !seen_compiled.insert(hash_str(&ctxt)) {
                r.count("configurations_same_compiled_context_as_other_mode", 1);
                if oi == 0 && mi == 2 && seen_compiled.len() == 1 {
                    mode_insensitive = true;
                }
                continue;
            }
            r.count("distinct_compiled_contexts", 1);
            r.distinct(hash_str(&ctxt));
            let plan = match Plan::of_context(&compiled) {
                Ok(p) => p,
                Err(e) => {
                    r.violation(
                        &format!("{}:{}:not-inlined", id, prog.class),
                        &format!("compiled context is not a fully inlined graph: {}", e),
                        json!({"context": src_txt, "owners": owners_json(owners), "outs": outs, "mode": mname, "kind": "compile"}),
                    );
                    continue;
                }
            };
            let n_prf = plan.nodes.iter().filter(|n| n.op.is_prf_operation()).count();
            if n_prf > 0 {
                r.count("compiled_contexts_with_prf_masks", 1);
            }
            if plan.nodes.iter().any(|n| !n.sends.is_empty()) {
                r.count("compiled_contexts_with_sends", 1);
            }
            conformance(r, &compiled, &plan, &types, owners, &cases[0].0);
            for (k, (iv, expected)) in cases.iter().enumerate() {
                let mut runs: Vec<(u64, &'static str)> = vec![(11, "real")];
                if k == 0 {
                    for s in 0..b.extra_seeds {
                        runs.push((100 + s + r.seed, "real"));
                    }
                    for t in b.tapes.iter() {
                        runs.push((11, *t));
                    }
                }
                // hash-based joins: two of the three hash functions identical, on every input
                if prog.class.starts_with("Join") {
                    for t in ["hash-01", "hash-02", "hash-12"] {
                        runs.push((11, t));
                    }
                }
                for (seed, tape) in runs {
                    match which {
                        Which::Global => {
                            let res = one_global(&plan, &types, owners, &outs, iv, expected, &out_t, seed, tape, prog);
                            r.count("evaluations", 1);
                            match res {
                                Ok(true) => r.count("allowed_aborts", 1),
                                Ok(false) => {}
                                Err((kind, msg)) => r.violation(
                                    &format!("{}:{}:{}", id, prog.class, kind),
                                    &format!("{} | owners {:?} outs {:?} mode {} tape {}: {}", prog.desc, owners.iter().map(|o| o.name()).collect::<Vec<_>>(), outs, mname, tape, msg),
                                    json!({"context": src_txt, "owners": owners_json(owners), "outs": outs, "mode": mname,
                                           "inputs": vals_json(iv), "seed": seed, "tape": tape, "kind": "global", "desc": prog.desc}),
                                ),
                            }
                        }
                        Which::ThreeParty => {
                            // full junk x seed-set cross on the first input with the real tape; one rotating junk pattern otherwise
                            let junks: Vec<&'static str> = if k == 0 && tape == "real" { b.junk.clone() } else { vec![b.junk[(k + seed as usize) % b.junk.len()]] };
                            let seed_sets = if k == 0 && tape == "real" { b.seed_sets } else { 1 };
                            for junk in junks.iter() {
                                for ss in 0..seed_sets {
                                    let seeds = [seed + 1000 * ss as u64, seed + 7 + 2000 * ss as u64, seed + 13 + 3000 * ss as u64];
                                    let res = one_three(r, &plan, &types, owners, &outs, iv, expected, &out_t, seeds, tape, junk, prog);
                                    r.count("evaluations", 1);
                                    match res {
                                        Ok(true) => r.count("allowed_aborts", 1),
                                        Ok(false) => {}
                                        Err((kind, msg)) => r.violation(
                                            &format!("{}:{}:{}", id, prog.class, kind),
                                            &format!("{} | owners {:?} outs {:?} mode {} tape {} junk {}: {}", prog.desc, owners.iter().map(|o| o.name()).collect::<Vec<_>>(), outs, mname, tape, junk, msg),
                                            json!({"context": src_txt, "owners": owners_json(owners), "outs": outs, "mode": mname,
                                                   "inputs": vals_json(iv), "seeds": seeds, "tape": tape, "junk": junk, "kind": "three", "desc": prog.desc}),
                                        ),
                                    }
                                }
                            }
                        }
                    }
                }
            }
            if r.want_sample() {
                r.sample(json!({"program": prog.desc, "owners": owners_json(owners), "outs": outs, "mode": mname,
                    "compiled_nodes": plan.nodes.len(), "prf_nodes": n_prf,
                    "first_input": types.iter().zip(cases[0].0.iter()).map(|(t, v)| vals::show(v, t)).collect::<Vec<_>>(),
                    "expected": vals::show(&cases[0].1, &out_t)}));
            }
        }
    }
}

/// E1 conformance: the harness walker must agree with the library's own graph evaluator (same seed), and a
/// three-party run in which every party is given all real values and the same seed must reproduce the global values.
fn conformance(r: &Report, compiled: &Context, plan: &Plan, types: &[Type], owners: &[Owner], iv: &[Value]) {
    let gi = mpcx::global_inputs(types, owners, iv, &mut || 0x3C);
    let mut ev = new_eval(5);
    let walker = run_global(plan, &gi, &mut ev, &mut RealRandomness);
    let mut ev2 = new_eval(5);
    let g = compiled.get_main_graph().unwrap();
    let gi2 = gi.clone();
    let lib = catch(move || ev2.evaluate_graph(g, gi2));
    match (walker, lib) {
        (Ok(vs), Ok(Ok(v))) => {
            if vs[plan.output] != v {
                println!("MACHINERY-ERROR executor and Evaluator::evaluate_graph disagree (same seed)");
                std::process::exit(2);
            }
            // three-party run with full knowledge and identical seeds reproduces the global values at every node
            let pi = [gi.clone(), gi.clone(), gi.clone()];
            let tr = mpcx::eval_compiled_three(plan, &pi, [5, 5, 5], &mut RealRandomness);
            for p in 0..3 {
                for (i, pv) in tr.vals[p].iter().enumerate() {
                    match pv.val() {
                        Some(x) if x == vs[i] => {}
                        _ => {
                            println!("MACHINERY-ERROR three-party executor with full knowledge diverges from global run at node {}", i);
                            std::process::exit(2);
                        }
                    }
                }
            }
            r.count("traces_validated_against_impl", 2);
        }
        (Err(_), Ok(Err(_))) | (Err(_), Err(_)) => {
            r.count("conformance_both_fail", 1);
        }
        _ => {
            println!("MACHINERY-ERROR executor and Evaluator::evaluate_graph disagree on success/failure");
            std::process::exit(2);
        }
    }
}

type CaseResult = Result<bool, (String, String)>;

#[allow(clippy::too_many_arguments)]
fn one_global(
    plan: &Plan,
    types: &[Type],
    owners: &[Owner],
    outs: &[u8],
    iv: &[Value],
    expected: &Value,
    out_t: &Type,
    seed: u64,
    tape: &str,
    prog: &Prog,
) -> CaseResult {
    let mut sm = SplitMix(seed ^ 0x5151);
    let mut buf: Vec<u8> = vec![];
    let mut share_bytes = move || {
        if buf.is_empty() {
            buf = sm.bytes(64);
        }
        buf.pop().unwrap()
    };
    let gi = mpcx::global_inputs(types, owners, iv, &mut share_bytes);
    let mut oracle = tape_by_name(tape);
    match mpcx::eval_compiled_global(plan, &gi, seed, oracle.as_mut()) {
        Ok(v) => match mpcx::check_global_output(&v, expected, out_t, outs) {
            Ok(()) => Ok(false),
            Err(m) => Err(("wrong-output".into(), m)),
        },
        Err(m) => {
            if let Some(a) = prog.allowed_abort {
                if m.contains(a) {
                    return Ok(true);
                }
            }
            Err(("eval-error".into(), m))
        }
    }
}

#[allow(clippy::too_many_arguments)]
fn one_three(
    r: &Report,
    plan: &Plan,
    types: &[Type],
    owners: &[Owner],
    outs: &[u8],
    iv: &[Value],
    expected: &Value,
    out_t: &Type,
    seeds: [u64; 3],
    tape: &str,
    junk: &str,
    prog: &Prog,
) -> CaseResult {
    let mut sm = SplitMix(seeds[0] ^ 0x5151);
    let mut buf: Vec<u8> = vec![];
    let mut share_bytes = move || {
        if buf.is_empty() {
            buf = sm.bytes(64);
        }
        buf.pop().unwrap()
    };
    let mut js = junk_source(junk, seeds[1]);
    let pi = mpcx::party_inputs(types, owners, iv, &mut share_bytes, js.as_mut());
    let mut oracle = tape_by_name(tape);
    let run = mpcx::eval_compiled_three(plan, &pi, seeds, oracle.as_mut());
    r.count("transitions", run.party_steps);
    r.count("messages_delivered", run.sends);
    r.count("states", 1);
    if !run.poisoned_sends.is_empty() {
        r.count("runs_with_poisoned_send", 1);
    }
    match mpcx::check_three_output(plan, &run, expected, out_t, outs) {
        Ok(()) => Ok(false),
        Err(m) => {
            if let Some(a) = prog.allowed_abort {
                if m.contains(a) {
                    return Ok(true);
                }
            }
            let kind = if m.contains("cannot compute") { "party-cannot-compute" } else { "wrong-at-party" };
            Err((kind.into(), m))
        }
    }
}

/// covering set of owner vectors for two inputs (every status in every position, equal and different parties)
pub fn covering_owners(n: usize) -> Vec<Vec<Owner>> {
    use Owner::*;
    let two = vec![
        vec![P(0), P(1)],
        vec![P(1), P(2)],
        vec![P(2), P(0)],
        vec![P(1), P(1)],
        vec![Shared, P(2)],
        vec![P(0), Shared],
        vec![Public, P(0)],
        vec![P(1), Public],
        vec![Shared, Shared],
        vec![Public, Public],
    ];
    match n {
        2 => two,
        1 => Owner::ALL.iter().map(|o| vec![*o]).collect(),
        _ => {
            let mut v = vec![];
            for (k, t) in two.iter().enumerate() {
                let mut w = t.clone();
                while w.len() < n {
                    w.push(Owner::ALL[(k + w.len()) % 5]);
                }
                v.push(w);
            }
            v
        }
    }
}

/// Generated programs. quick: depth 1 on every family (families 0,1 with all owner vectors, the others with the
/// covering set), planner-relevant depth 2 on families 0,1 with 4 owner vectors and 3 output subsets.
/// thorough: depth 1 full cross everywhere, planner-relevant depth 2 full cross everywhere.
pub fn generated_programs(r: &Report) -> Vec<Prog> {
    generated_programs_tier(r, r.tier.thorough())
}

/// the program space of the given tier (C02's thorough tier executes the quick space with a deeper budget)
pub fn generated_programs_tier(r: &Report, thorough: bool) -> Vec<Prog> {
    let mut progs = vec![];
    let mut seen: HashSet<String> = HashSet::new();
    for (fi, leaves) in gen::families(thorough).into_iter().enumerate() {
        let base = Recipe { leaves: leaves.clone(), steps: vec![] };
        let n_inputs = base.input_types().len();
        let base_types: Vec<Type> = leaves
            .iter()
            .map(|l| match l {
                Leaf::Input(t) => t.clone(),
                Leaf::Const(t, _) => t.clone(),
            })
            .collect();
        let d1 = gen::extend(&base, &base_types);
        for (rec, tys) in d1.iter() {
            // four-leaf families exist for the n-ary structural operations; their unary/binary depth-1 programs duplicate family 0
            let nary_only = leaves.len() >= 4 && rec.steps[0].operands().len() < 3;
            if !nary_only && seen.insert(rec.desc()) {
                let mut p = recipe_prog(rec);
                if (!thorough && fi >= 2) || n_inputs >= 4 {
                    p.owners = Some(covering_owners(n_inputs));
                }
                progs.push(p);
                r.count("programs_depth1", 1);
                // output-party lists in non-ascending order (the reveal step does not depend on the program, so a
                // reduced cross is enough): family 0 (thorough: every family) x 3 owner vectors x the 8 unsorted lists
                if (fi == 0 || thorough) && leaves.len() < 4 {
                    let mut p = recipe_prog(rec);
                    let c = covering_owners(n_inputs);
                    p.owners = Some(vec![c[0].clone(), c[1 % c.len()].clone(), c[4 % c.len()].clone()]);
                    p.outs = Some(mpcx::output_lists_unsorted());
                    progs.push(p);
                    r.count("programs_depth1_unsorted_output_lists", 1);
                }
            }
            // planner-relevant depth 2: first step multiplicative / conversion; for structured inputs: first step a getter
            let structured = leaves.len() >= 4 || leaves.iter().any(|l| matches!(l, Leaf::Input(t) if !(t.is_array() || t.is_scalar())));
            let getter = matches!(rec.steps[0], gen::Step::TupleGet(_, _) | gen::Step::NamedGet(_, _) | gen::Step::VectorGet(_, _) | gen::Step::V2A(_));
            if !(rec.steps[0].is_multiplicative() || (structured && getter)) || (!thorough && fi >= 2 && !structured) {
                continue;
            }
            if leaves.len() >= 4 && !matches!(rec.steps[0], gen::Step::Mul(0, 1) | gen::Step::Dot(0, 1)) {
                continue;
            }
            for (rec2, _) in gen::extend(rec, tys) {
                // four-leaf families: only n-ary structural second steps (the binary ones are covered by the other families)
                if leaves.len() >= 4 && rec2.steps[1].operands().len() < 3 {
                    continue;
                }
                // depth 3 "planner chains": a product, then two more steps (local operations postponing / forcing the
                // resharing of the 3-out-of-3 product); family 0 in quick, families 0-1 in thorough
                if leaves.len() == 2 && (fi == 0 || (thorough && fi == 1)) && matches!(rec.steps[0], gen::Step::Mul(0, 1) | gen::Step::Dot(0, 1)) {
                    let chain_op = |st: &gen::Step| {
                        use gen::Step::*;
                        matches!(st, Add(_, _) | Sub(_, _) | Mul(_, _) | Sum(_, _) | Get(_, _) | Slice(_, 0) | Reshape(_, _) | Concat(_, _, 0) | Stack(_, _) | Tuple(_, _) | TupleGet(_, _) | A2V(_))
                    };
                    if !chain_op(&rec2.steps[1]) || matches!(rec2.steps[1], gen::Step::Mul(_, _)) {
                        // second step must be local
                    } else if let Ok(b2) = gen::build(&rec2) {
                        for (rec3, _) in gen::extend(&rec2, &b2.types) {
                            if !chain_op(&rec3.steps[2]) {
                                continue;
                            }
                            if seen.insert(rec3.desc()) {
                                let mut p = recipe_prog(&rec3);
                                let c = covering_owners(n_inputs);
                                p.owners = Some(vec![c[0].clone(), c[3].clone(), c[4].clone()]);
                                p.outs = Some(vec![vec![], vec![1]]);
                                progs.push(p);
                                r.count("programs_depth3", 1);
                            }
                        }
                    }
                }
                if seen.insert(rec2.desc()) {
                    let mut p = recipe_prog(&rec2);
                    if thorough && n_inputs >= 3 {
                        p.owners = Some(covering_owners(n_inputs));
                    }
                    if n_inputs >= 4 {
                        p.outs = Some(vec![vec![], vec![1], vec![0, 2]]);
                    }
                    if !thorough {
                        let c = covering_owners(n_inputs);
                        let mut pick: Vec<Vec<Owner>> = vec![];
                        for k in [0usize, 3, 4, 7] {
                            let o = c[k % c.len()].clone();
                            if !pick.contains(&o) {
                                pick.push(o);
                            }
                        }
                        p.owners = Some(pick);
                        p.outs = Some(vec![vec![], vec![1], vec![0, 2]]);
                    }
                    progs.push(p);
                    r.count("programs_depth2", 1);
                }
            }
        }
    }
    progs
}

pub fn run_engine(r: &Report, which: Which, progs: Vec<Prog>, b: &Budget) {
    // tasks = (program, owner vector); every task rebuilds its own context (contexts are not shared across threads)
    let mut tasks: Vec<(usize, Vec<Owner>)> = vec![];
    for (pi, p) in progs.iter().enumerate() {
        let n_inputs = match (p.build)() {
            Ok(c) => mpcx::input_types(&c).len(),
            Err(_) => continue,
        };
        r.count("programs", 1);
        let ovs = p.owners.clone().unwrap_or_else(|| mpcx::owner_vectors(n_inputs));
        for ov in ovs {
            tasks.push((pi, ov));
        }
    }
    // development knob: only the programs whose class starts with the given prefix
    if let Ok(c) = std::env::var("VERIF_ONLY_CLASS") {
        tasks.retain(|(pi, _)| progs[*pi].class.starts_with(&c));
    }
    r.count("tasks", tasks.len() as u64);
    if std::env::var("VERIF_DRY").is_ok() {
        eprintln!("programs={} tasks={} d1={} d2={} d3={}", r.get("programs"), tasks.len(), r.get("programs_depth1"), r.get("programs_depth2"), r.get("programs_depth3"));
        return;
    }
    if let Ok(m) = std::env::var("VERIF_MAX_TASKS") {
        tasks.truncate(m.parse().unwrap_or(usize::MAX));
    }
    tasks.par_iter().for_each(|(pi, ov)| {
        run_task(r, which, &progs[*pi], ov, b);
    });
    r.count("join_hash_matrices_scripted_with_two_identical_functions", HASH_COLLIDE_HITS.load(std::sync::atomic::Ordering::Relaxed));
}

pub fn class_histogram(progs: &[Prog]) -> J {
    let mut h: BTreeMap<String, u64> = BTreeMap::new();
    for p in progs {
        *h.entry(p.class.clone()).or_insert(0) += 1;
    }
    json!(h)
}

pub fn run(r: &Report) -> i32 {
    let thorough = r.tier.thorough();
    let mut progs = generated_programs(r);
    progs.extend(super::curated::programs(thorough));
    r.extra("program_classes", class_histogram(&progs));
    let b = Budget {
        max_inputs: if thorough { 12 } else { 5 },
        extra_seeds: 2,
        tapes: vec!["prf-zero", "prf-ones"],
        junk: vec![],
        seed_sets: 1,
    };
    run_engine(r, Which::Global, progs, &b);
    r.finish(
        "exploration",
        "programs: every builder-accepted recipe of depth 1 (and depth 2 whose first step is multiplicative/conversion; thorough: all depth 2) over the MPC-compilable alphabet on 7-10 leaf families, plus curated sort/permutation/join/custom-op/call-iterate programs; crossed with all 5^n owner vectors x 8 output subsets x 3 inline modes (modes with identical compiled context evaluated once) x whole-array boundary input vectors x {3 seeds, PRF-all-zero, PRF-all-ones tapes}; oracle = SimpleEvaluator on the source graph; distinct = distinct compiled contexts (hash of serialization)",
        true,
        &[
            "the plaintext evaluator is the reference (tied to documented semantics by C10)",
            "program depth <= 2, <= 3 inputs, shapes <= 2x2 (2x8 for bit strings)",
            "integer inputs from a boundary alphabet, not all values",
        ],
        &["evaluations", "programs", "distinct_compiled_contexts", "compiled_contexts_with_prf_masks", "traces_validated_against_impl"],
    )
}

pub fn replay(r: &Report, rec: &J) -> i32 {
    replay_case(r, &rec["case"])
}

pub fn replay_case(_r: &Report, case: &J) -> i32 {
    let ctx: Context = match serde_json::from_str(case["context"].as_str().unwrap_or("")) {
        Ok(c) => c,
        Err(e) => {
            println!("cannot load context: {}", e);
            return 2;
        }
    };
    let owners = owners_from_json(&case["owners"]);
    let outs: Vec<u8> = case["outs"].as_array().unwrap().iter().map(|x| x.as_u64().unwrap() as u8).collect();
    let mname = case["mode"].as_str().unwrap();
    let mode = mpcx::modes().into_iter().find(|m| m.0 == mname).unwrap().1;
    let compiled = match mpcx::compile(&ctx, &owners, &outs, &mode) {
        Ok(c) => c,
        Err(e) => {
            println!("compile: {}", e);
            return if e.starts_with("panic") { 1 } else { 0 };
        }
    };
    if case["kind"] == "compile" {
        println!("compile succeeds");
        return 0;
    }
    let plan = Plan::of_context(&compiled).unwrap();
    let types = mpcx::input_types(&ctx);
    let out_t = mpcx::output_type(&ctx);
    let iv = vals_from_json(&case["inputs"]);
    let expected = mpcx::eval_plain(&ctx, &iv, 1).unwrap();
    println!("inputs   : {}", json!(types.iter().zip(iv.iter()).map(|(t, v)| vals::show(v, t)).collect::<Vec<_>>()));
    println!("expected : {}", vals::show(&expected, &out_t));
    let tape = case["tape"].as_str().unwrap_or("real");
    let prog = Prog {
        desc: "replay".into(),
        class: "replay".into(),
        build: Arc::new(|| Err("".into())),
        owners: None,
        outs: None,
        inputs: None,
        allowed_abort: None,
    };
    let res = if case["kind"] == "global" {
        one_global(&plan, &types, &owners, &outs, &iv, &expected, &out_t, case["seed"].as_u64().unwrap(), tape, &prog)
    } else {
        let s: Vec<u64> = case["seeds"].as_array().unwrap().iter().map(|x| x.as_u64().unwrap()).collect();
        let rr = Report::new("replay", crate::common::Tier::Quick, 0);
        one_three(&rr, &plan, &types, &owners, &outs, &iv, &expected, &out_t, [s[0], s[1], s[2]], tape, case["junk"].as_str().unwrap_or("zeros"), &prog)
    };
    match res {
        Ok(_) => {
            println!("observed : matches expected (violation does not reproduce)");
            0
        }
        Err((k, m)) => {
            println!("observed : {} - {}", k, m);
            1
        }
    }
}

#[allow(dead_code)]
fn is_input(op: &Operation) -> bool {
    op.is_input()
}
