//! C07 - body kinds: builders of the source contexts (real builder API), input families and
//! the boring pure-Rust models of the bodies (used to cross-check the native evaluation).
use crate::vals;
use ciphercore_base::data_types::{
    array_type, scalar_type, tuple_type, vector_type, ScalarType, Type, BIT, INT32, INT64, UINT64,
    UINT8,
};
use ciphercore_base::data_values::Value;
use ciphercore_base::errors::Result as CR;
use ciphercore_base::graphs::{
    create_context, Context, Graph, GraphAnnotation, Node, SliceElement,
};

#[derive(Clone, Copy, Debug, PartialEq, Eq)]
pub enum Out {
    /// body output is the empty tuple (the inliners then use log_depth_sum instead of prefix sums)
    Empty,
    /// body output is (pre-state, input): exposes the state before every step and the input binding
    Pre,
}
impl Out {
    fn n(self) -> &'static str {
        match self {
            Out::Empty => "empty",
            Out::Pre => "pre",
        }
    }
}

#[derive(Clone, Copy, Debug, PartialEq, Eq)]
pub enum Shape {
    /// unbatched: scalar bit (one-bit) or [K]
    Flat,
    /// [m] / [m,K]: one lane per enumerated (initial state, sequence)
    Lanes,
    /// [2,m/2] / [2,m/2,K]
    Grid,
}
impl Shape {
    fn n(self) -> &'static str {
        match self {
            Shape::Flat => "flat",
            Shape::Lanes => "lanes",
            Shape::Grid => "grid",
        }
    }
}

#[derive(Clone, Copy, Debug, PartialEq, Eq)]
pub enum Flavor {
    Shift,
    Affine,
    Counter,
}
impl Flavor {
    fn n(self) -> &'static str {
        match self {
            Flavor::Shift => "shift",
            Flavor::Affine => "affine",
            Flavor::Counter => "counter",
        }
    }
}

#[derive(Clone, Debug, PartialEq, Eq)]
pub enum Kind {
    Empty { arr: bool },
    General { arr: bool },
    AssocAdd { arr: bool, out: Out },
    AssocMat { signed: bool, out: Out },
    Witness { out: Out },
    OneBit { shape: Shape, out: Out },
    Small { k: u64, flavor: Flavor, shape: Shape, out: Out },
    RandEmpty,
    RandGeneral,
    RandCall,
    RandNested,
    /// 1: call-in-iterate (+ same graph called from main), 2: iterate-in-call (called twice),
    /// 3: iterate-in-iterate, 4: one graph both called and iterated, 5: one-bit iterate inside a call
    Nested { which: u8, assoc: bool },
    /// bodies OUTSIDE the stated contracts of the depth-optimised strategies (outcome recorded only)
    Probe { which: u8 },
}

/// how many inlining configurations a kind is crossed with
#[derive(Clone, Copy, PartialEq, Eq, Debug)]
pub enum CfgClass {
    Plain3,
    Plain3Plus,
    All100,
}

pub struct Built {
    pub ctx: Context,
    pub in_types: Vec<Type>,
    pub out_type: Type,
    pub inputs: Vec<Vec<Value>>,
    /// canonical flattening of the expected output by the pure-Rust model (where one exists)
    pub models: Vec<Option<Vec<u128>>>,
    /// (initial state, sequence) lanes carried by all input sets together
    pub lanes: u64,
    /// number of Call / Iterate nodes in the source main graph
    pub main_calls: u64,
    pub main_iters: u64,
}

impl Kind {
    pub fn name(&self) -> String {
        match self {
            Kind::Empty { arr } => format!("empty:{}", if *arr { "i32x2" } else { "u8" }),
            Kind::General { arr } => format!("general:{}", if *arr { "i32x2" } else { "u64" }),
            Kind::AssocAdd { arr, out } => {
                format!("assoc-add:{}:{}", if *arr { "i64x2" } else { "u8" }, out.n())
            }
            Kind::AssocMat { signed, out } => {
                format!("assoc-mat:{}:{}", if *signed { "i32" } else { "u8" }, out.n())
            }
            Kind::Witness { out } => format!("witness:{}", out.n()),
            Kind::OneBit { shape, out } => format!("onebit:{}:{}", shape.n(), out.n()),
            Kind::Small { k, flavor, shape, out } => {
                format!("small:k{}:{}:{}:{}", k, flavor.n(), shape.n(), out.n())
            }
            Kind::RandEmpty => "rand-empty".into(),
            Kind::RandGeneral => "rand-general".into(),
            Kind::RandCall => "rand-call".into(),
            Kind::RandNested => "rand-nested".into(),
            Kind::Nested { which, assoc } => {
                format!("nested{}{}", which, if *assoc { ":annotated" } else { "" })
            }
            Kind::Probe { which } => format!("probe{}", which),
        }
    }
    /// short class used in violation signatures (no type / output / shape variants)
    pub fn class(&self) -> String {
        match self {
            Kind::Empty { .. } => "empty-state".into(),
            Kind::General { .. } => "general-state".into(),
            Kind::AssocAdd { .. } => "assoc-add".into(),
            Kind::AssocMat { .. } => "assoc-matmul".into(),
            Kind::Witness { .. } => "assoc-order-witness".into(),
            Kind::OneBit { .. } => "one-bit-state".into(),
            Kind::Small { .. } => "small-state".into(),
            Kind::RandEmpty | Kind::RandGeneral | Kind::RandCall | Kind::RandNested => {
                "random-body".into()
            }
            Kind::Nested { which, .. } => format!("nested{}", which),
            Kind::Probe { which } => format!("probe{}", which),
        }
    }
    /// the strategy inline_ops.rs:417-468 selects for the Iterate of this kind in DepthOptimized modes
    pub fn strategy(&self) -> &'static str {
        match self {
            Kind::Empty { .. } | Kind::RandEmpty => "empty-state",
            Kind::General { .. } | Kind::RandGeneral | Kind::RandNested => "simple",
            Kind::AssocAdd { .. } | Kind::AssocMat { .. } | Kind::Witness { .. } => "associative",
            Kind::OneBit { .. } => "one-bit",
            Kind::Small { .. } => "small-state",
            Kind::RandCall => "call-only",
            Kind::Nested { .. } => "nested",
            Kind::Probe { .. } => "probe",
        }
    }
    pub fn in_contract(&self) -> bool {
        !matches!(self, Kind::Probe { .. })
    }
    pub fn is_random(&self) -> bool {
        matches!(self, Kind::RandEmpty | Kind::RandGeneral | Kind::RandCall | Kind::RandNested)
    }
    pub fn cfg_class(&self) -> CfgClass {
        match self {
            Kind::Empty { .. }
            | Kind::General { .. }
            | Kind::AssocAdd { .. }
            | Kind::Witness { .. } => CfgClass::Plain3Plus,
            Kind::OneBit { shape, .. } if *shape != Shape::Flat => CfgClass::Plain3Plus,
            Kind::AssocMat { .. } | Kind::OneBit { .. } | Kind::Small { .. } => CfgClass::Plain3,
            Kind::Probe { .. } => CfgClass::Plain3,
            _ => CfgClass::All100,
        }
    }
    /// Random nodes the fully inlined context must contain (one per inlined copy of the body)
    pub fn expected_random_nodes(&self, n: u64) -> Option<u64> {
        match self {
            Kind::RandEmpty | Kind::RandGeneral => Some(n),
            Kind::RandCall => Some(4),
            Kind::RandNested => Some(2 * n),
            _ => None,
        }
    }

    /// input sets per parallel sub-unit
    pub fn sets_per_unit(&self) -> usize {
        match self {
            Kind::OneBit { shape: Shape::Flat, .. } => 200,
            // K >= 3: inlining a 2^K-fold expansion is expensive, never repeat it in sub-units
            Kind::Small { shape: Shape::Flat, k, .. } => match k {
                1 | 2 => 100,
                _ => 100_000,
            },
            Kind::Small { k, .. } => match k {
                1 | 2 => 4,
                _ => 100_000,
            },
            _ => 4,
        }
    }

    /// number of input sets `build` produces (without building the context)
    pub fn n_input_sets(&self, n: u64, thorough: bool) -> usize {
        let per = |shape: Shape, lanes: usize, chunk: usize| -> usize {
            if shape == Shape::Flat {
                lanes
            } else {
                (lanes + chunk - 1) / chunk
            }
        };
        match self {
            Kind::OneBit { shape, .. } => {
                per(*shape, onebit_lanes(*shape, n as usize, thorough).len(), LANE_CHUNK)
            }
            Kind::Small { k, flavor, shape, out } => {
                let level = small_level(*k, *flavor, *shape, *out, n as usize, thorough);
                per(*shape, small_lanes(*k, *shape, n as usize, level, thorough).len(), lane_chunk(*k))
            }
            _ => 0,
        }
    }

    pub fn build(&self, n: u64, thorough: bool) -> CR<Built> {
        match self {
            Kind::Empty { arr } => build_arith(self, *arr, n),
            Kind::General { arr } => build_arith(self, *arr, n),
            Kind::AssocAdd { arr, .. } => build_arith(self, *arr, n),
            Kind::AssocMat { .. } => build_arith(self, true, n),
            Kind::Witness { out } => build_witness(*out, n),
            Kind::OneBit { shape, out } => build_onebit(*shape, *out, n, thorough),
            Kind::Small { k, flavor, shape, out } => {
                build_small(*k, *flavor, *shape, *out, n, thorough)
            }
            Kind::RandEmpty | Kind::RandGeneral | Kind::RandCall | Kind::RandNested => {
                build_random(self, n)
            }
            Kind::Nested { which, assoc } => build_nested(*which, *assoc, n),
            Kind::Probe { which } => build_probe(*which, n),
        }
    }
}

// ------------------------------------------------------------------------------------------------
// helpers

fn u64t() -> Type {
    scalar_type(UINT64)
}

fn count_main(ctx: &Context) -> (u64, u64) {
    use ciphercore_base::graphs::Operation;
    let g = ctx.get_main_graph().unwrap();
    let mut c = 0;
    let mut i = 0;
    for nd in g.get_nodes() {
        match nd.get_operation() {
            Operation::Call => c += 1,
            Operation::Iterate => i += 1,
            _ => {}
        }
    }
    (c, i)
}

fn finish(ctx: Context, inputs: Vec<Vec<Value>>, models: Vec<Option<Vec<u128>>>, lanes: u64) -> CR<Built> {
    let in_types = crate::mpcx::input_types(&ctx);
    let out_type = crate::mpcx::output_type(&ctx);
    let (main_calls, main_iters) = count_main(&ctx);
    Ok(Built { ctx, in_types, out_type, inputs, models, lanes, main_calls, main_iters })
}

/// main(s0, xs) = Iterate(body, s0, xs); `state` None: the state is the empty tuple built in main.
fn main_iterate(c: &Context, body: Graph, state: Option<Type>, xt: Type, n: u64) -> CR<()> {
    let g = c.create_graph()?;
    let s0 = match state {
        Some(t) => g.input(t)?,
        None => g.create_tuple(vec![])?,
    };
    let xs = g.input(vector_type(n, xt))?;
    let it = g.iterate(body, s0, xs)?;
    it.set_as_output()?;
    g.finalize()?;
    c.set_main_graph(g)?;
    c.finalize()?;
    Ok(())
}

fn out_node(g: &Graph, out: Out, s: &Node, x: &Node) -> CR<Node> {
    match out {
        Out::Empty => g.create_tuple(vec![]),
        Out::Pre => g.create_tuple(vec![s.clone(), x.clone()]),
    }
}

fn alphabet(st: &ScalarType) -> Vec<u128> {
    let m = vals::st_mask(st);
    let sb = 1u128 << (vals::st_bits(st) - 1);
    vec![0, 1, 2, 3, m, m - 1, sb, sb - 1, 0x5555_5555_5555_5555_5555_5555_5555_5555 & m, 7]
}

/// element e of item i (0 = initial state, i+1 = i-th input) of input set p
fn pat(p: usize, i: usize, e: usize, st: &ScalarType) -> u128 {
    let a = alphabet(st);
    match p {
        0 => 0,
        1 => 1,
        2 => vals::st_mask(st),
        _ => a[(i * (p - 2) + e * 3 + p) % a.len()],
    }
}

const N_ARITH_SETS: usize = 6;

fn item(p: usize, i: usize, t: &Type) -> Value {
    let st = t.get_scalar_type();
    let ne = vals::num_elems(t);
    let el: Vec<u128> = (0..ne).map(|e| pat(p, i, e, &st)).collect();
    vals::arr_value(&el, &st)
}

/// unimodular 2x2 generators: products never collapse to the zero matrix, and they do not commute
const GENS: [[u128; 4]; 5] = [[1, 1, 0, 1], [1, 0, 1, 1], [0, 1, 1, 0], [1, 2, 3, 5], [2, 1, 1, 1]];

// ------------------------------------------------------------------------------------------------
// arithmetic bodies: empty state, general state, associative add / matrix product

fn build_arith(kind: &Kind, arr: bool, n: u64) -> CR<Built> {
    let c = create_context()?;
    let b = c.create_graph()?;
    let (t, has_state) = match kind {
        Kind::Empty { .. } => (if arr { array_type(vec![2], INT32) } else { scalar_type(UINT8) }, false),
        Kind::General { .. } => (if arr { array_type(vec![2], INT32) } else { u64t() }, true),
        Kind::AssocAdd { .. } => (if arr { array_type(vec![2], INT64) } else { scalar_type(UINT8) }, true),
        Kind::AssocMat { signed, .. } => (array_type(vec![2, 2], if *signed { INT32 } else { UINT8 }), true),
        _ => unreachable!(),
    };
    match kind {
        Kind::Empty { .. } => {
            let s = b.input(tuple_type(vec![]))?;
            let x = b.input(t.clone())?;
            let o = x.multiply(x.clone())?.add(x)?;
            b.create_tuple(vec![s, o])?.set_as_output()?;
        }
        Kind::General { .. } => {
            // s' = 2s + x (not associative), output depends on the pre-state
            let s = b.input(t.clone())?;
            let x = b.input(t.clone())?;
            let s2 = s.add(s.clone())?.add(x.clone())?;
            let o = s.multiply(x)?.add(s)?;
            b.create_tuple(vec![s2, o])?.set_as_output()?;
        }
        Kind::AssocAdd { out, .. } => {
            let s = b.input(t.clone())?;
            let x = b.input(t.clone())?;
            let s2 = s.add(x.clone())?;
            let o = out_node(&b, *out, &s, &x)?;
            b.create_tuple(vec![s2, o])?.set_as_output()?;
            b.add_annotation(GraphAnnotation::AssociativeOperation)?;
        }
        Kind::AssocMat { out, .. } => {
            let s = b.input(t.clone())?;
            let x = b.input(t.clone())?;
            let s2 = s.matmul(x.clone())?;
            let o = out_node(&b, *out, &s, &x)?;
            b.create_tuple(vec![s2, o])?.set_as_output()?;
            b.add_annotation(GraphAnnotation::AssociativeOperation)?;
        }
        _ => unreachable!(),
    }
    b.finalize()?;
    main_iterate(&c, b, if has_state { Some(t.clone()) } else { None }, t.clone(), n)?;
    let mut inputs = vec![];
    for p in 0..N_ARITH_SETS {
        let mut v = vec![];
        let is_mat = matches!(kind, Kind::AssocMat { .. });
        let st = t.get_scalar_type();
        let mk = |i: usize| -> Value {
            if is_mat && p < 5 {
                let g = if i == 0 { GENS[p % 5] } else { GENS[((i - 1) * (p + 1) + p) % 5] };
                vals::arr_value(&g, &st)
            } else {
                item(if is_mat { 4 } else { p }, i, &t)
            }
        };
        if has_state {
            v.push(mk(0));
        }
        v.push(Value::from_vector((0..n as usize).map(|i| mk(i + 1)).collect()));
        inputs.push(v);
    }
    let models = inputs.iter().map(|_| None).collect();
    finish(c, inputs, models, 0)
}

// ------------------------------------------------------------------------------------------------
// order-witness monoid

fn build_witness(out: Out, n: u64) -> CR<Built> {
    let c = create_context()?;
    let b = c.create_graph()?;
    let t = tuple_type(vec![u64t(), u64t(), u64t()]);
    let s = b.input(t.clone())?;
    let x = b.input(t.clone())?;
    let one = b.ones(u64t())?;
    // combine(s,x) = (s.lo, x.hi, s.err + x.err + (s.hi + 1 - x.lo)^2)
    let d = s.tuple_get(1)?.add(one)?.subtract(x.tuple_get(0)?)?;
    let err = s.tuple_get(2)?.add(x.tuple_get(2)?)?.add(d.multiply(d.clone())?)?;
    let s2 = b.create_tuple(vec![s.tuple_get(0)?, x.tuple_get(1)?, err])?;
    let o = out_node(&b, out, &s, &x)?;
    b.create_tuple(vec![s2, o])?.set_as_output()?;
    b.add_annotation(GraphAnnotation::AssociativeOperation)?;
    b.finalize()?;
    main_iterate(&c, b, Some(t.clone()), t, n)?;
    let trip = |a: u64, b: u64, c: u64| {
        Value::from_vector(vec![
            vals::arr_value(&[a as u128], &UINT64),
            vals::arr_value(&[b as u128], &UINT64),
            vals::arr_value(&[c as u128], &UINT64),
        ])
    };
    // the decisive input: s0 = [0,0], x_i = [i+1,i+1]; every element combined once, in order <=> (0,n,0)
    let dec = vec![trip(0, 0, 0), Value::from_vector((0..n).map(|i| trip(i + 1, i + 1, 0)).collect())];
    let mut model = vec![0u128, n as u128, 0];
    if out == Out::Pre {
        for i in 0..n {
            model.extend_from_slice(&[0, i as u128, 0, i as u128 + 1, i as u128 + 1, 0]);
        }
    }
    // a second, arbitrary input (gaps and overlaps: non-zero error terms)
    let arb = vec![
        trip(5, 9, 1),
        Value::from_vector((0..n).map(|i| trip(3 * i, i * i, i)).collect()),
    ];
    finish(c, vec![dec, arb], vec![Some(model), None], 0)
}

// ------------------------------------------------------------------------------------------------
// sequences of function symbols

/// all 4^n sequences in lexicographic order
fn all_sequences(n: usize) -> Vec<Vec<u8>> {
    let mut out = vec![];
    let total = 1usize << (2 * n);
    for code in 0..total {
        out.push((0..n).map(|i| ((code >> (2 * (n - 1 - i))) & 3) as u8).collect());
    }
    out
}

/// identity everywhere; p at a; p at a and q at b
fn one_point(n: usize, a: usize, p: u8) -> Vec<u8> {
    let mut s = vec![0u8; n];
    s[a] = p;
    s
}
fn two_point(n: usize, a: usize, p: u8, b: usize, q: u8) -> Vec<u8> {
    let mut s = vec![0u8; n];
    s[a] = p;
    s[b] = q;
    s
}

/// boundary positions of a length-n sequence (block borders of the sqrt trick / segment tree)
pub fn boundary_positions(n: usize) -> Vec<usize> {
    let mut c: Vec<usize> = vec![0, 1, 2, 3, 4, 7, 8, 15, 16, 31, 32];
    if n >= 2 {
        c.push(n / 2 - 1);
        c.push(n / 2);
    }
    for d in 1..=3 {
        if n >= d {
            c.push(n - d);
        }
    }
    c.retain(|x| *x < n);
    c.sort();
    c.dedup();
    c
}

// ------------------------------------------------------------------------------------------------
// one-bit state: s' = a*s + b; symbols 0 identity (1,0), 1 set (0,1), 2 reset (0,0), 3 not (1,1)

fn ob_ab(sym: u8) -> (u8, u8) {
    match sym {
        0 => (1, 0),
        1 => (0, 1),
        2 => (0, 0),
        _ => (1, 1),
    }
}

fn bits_value(bits: &[u8]) -> Value {
    let e: Vec<u128> = bits.iter().map(|b| *b as u128).collect();
    Value::from_bytes(vals::encode(&e, &BIT))
}

fn lane_shape(shape: Shape, m: u64, last: Option<u64>) -> Type {
    let mut dims = match shape {
        Shape::Flat => vec![],
        Shape::Lanes => vec![m],
        Shape::Grid => vec![2, m / 2],
    };
    if let Some(k) = last {
        dims.push(k);
    }
    if dims.is_empty() {
        scalar_type(BIT)
    } else {
        array_type(dims, BIT)
    }
}

/// constant sequences and rotations of short words: every position carries a non-identity function
fn dense_sequences(n: usize) -> Vec<Vec<u8>> {
    let mut out: Vec<Vec<u8>> = vec![];
    for p in 1..4u8 {
        out.push(vec![p; n]);
    }
    let words: [&[u8]; 6] = [&[1, 2, 3], &[1, 3, 2], &[1, 1, 2], &[1, 3], &[2, 1], &[3, 2, 2, 1]];
    for w in words {
        for r in 0..w.len() {
            out.push((0..n).map(|i| w[(i + r) % w.len()]).collect());
        }
    }
    out
}

/// two-point families over a position set
fn two_point_over(n: usize, pos: &[usize], pairs: &[(u8, u8)]) -> Vec<Vec<u8>> {
    let mut out = vec![];
    for (p, q) in pairs {
        for a in pos.iter() {
            for b in pos.iter() {
                if a == b || (p == q && a > b) {
                    continue;
                }
                out.push(two_point(n, *a, *p, *b, *q));
            }
        }
    }
    out
}

/// lanes per input set of the batched shapes (the evaluator's cost is proportional to the lanes)
pub const LANE_CHUNK: usize = 128;
fn lane_chunk(k: u64) -> usize {
    match k {
        1 | 2 => 128,
        _ => 256,
    }
}

/// one-bit families. n <= 6: all 4^n function sequences. Above: identity, all one-point families,
/// the dense sequences, and two-point families "p at a, q at b, identity elsewhere" for
/// (set,reset), (not,set), (not,not) [a duplicated element is invisible to idempotent functions]:
/// batched lanes: all a, b (thorough; quick for n <= 17), else a, b from the boundary positions;
/// grid and unbatched: boundary positions. Every sequence with both initial states.
fn onebit_lanes(shape: Shape, n: usize, thorough: bool) -> Vec<(u8, Vec<u8>)> {
    let seqs = if n <= 6 {
        all_sequences(n)
    } else {
        let all: Vec<usize> = (0..n).collect();
        let bpos = boundary_positions(n);
        let mut v = vec![vec![0u8; n]];
        match shape {
            Shape::Lanes => {
                for p in 1..4u8 {
                    for a in 0..n {
                        v.push(one_point(n, a, p));
                    }
                }
                v.extend(dense_sequences(n));
                let pos = if thorough || n <= 17 { &all } else { &bpos };
                v.extend(two_point_over(n, pos, &[(1, 2), (3, 1), (3, 3)]));
            }
            Shape::Grid => {
                for p in 1..4u8 {
                    for a in 0..n {
                        v.push(one_point(n, a, p));
                    }
                }
                v.extend(dense_sequences(n));
                v.extend(two_point_over(n, &bpos, &[(1, 2), (3, 1)]));
            }
            Shape::Flat => {
                for a in bpos.iter() {
                    for p in 1..4u8 {
                        v.push(one_point(n, *a, p));
                    }
                }
                v.extend(dense_sequences(n));
                let few: Vec<usize> = if thorough { bpos.clone() } else { bpos.iter().copied().step_by(2).collect() };
                v.extend(two_point_over(n, &few, &[(1, 2)]));
            }
        }
        v
    };
    let mut lanes = vec![];
    for s in seqs {
        for init in 0..2u8 {
            lanes.push((init, s.clone()));
        }
    }
    lanes
}

/// splits lanes into input sets: one lane per set (unbatched) or LANE_CHUNK lanes per set
/// (the last set padded with identity lanes); returns (lanes per set m, groups)
fn group_lanes(shape: Shape, mut lanes: Vec<(u8, Vec<u8>)>, n: usize, chunk: usize) -> (u64, Vec<Vec<(u8, Vec<u8>)>>) {
    if shape == Shape::Flat {
        return (1, lanes.into_iter().map(|l| vec![l]).collect());
    }
    let mut m = std::cmp::min(lanes.len(), chunk);
    if shape == Shape::Grid && m % 2 == 1 {
        m += 1;
    }
    while lanes.len() % m != 0 {
        lanes.push((0, vec![0u8; n]));
    }
    (m as u64, lanes.chunks(m).map(|c| c.to_vec()).collect())
}

fn build_onebit(shape: Shape, out: Out, n: u64, thorough: bool) -> CR<Built> {
    let lanes = onebit_lanes(shape, n as usize, thorough);
    let n_lanes = lanes.len() as u64;
    let (m, groups) = group_lanes(shape, lanes, n as usize, LANE_CHUNK);
    let st = lane_shape(shape, m, None);
    let xt = tuple_type(vec![st.clone(), st.clone()]);
    let c = create_context()?;
    let b = c.create_graph()?;
    let s = b.input(st.clone())?;
    let x = b.input(xt.clone())?;
    let s2 = x.tuple_get(0)?.multiply(s.clone())?.add(x.tuple_get(1)?)?;
    let o = out_node(&b, out, &s, &x)?;
    b.create_tuple(vec![s2, o])?.set_as_output()?;
    b.add_annotation(GraphAnnotation::OneBitState)?;
    b.finalize()?;
    main_iterate(&c, b, Some(st), xt, n)?;
    let mut inputs = vec![];
    let mut models = vec![];
    for g in groups.iter() {
        let s0: Vec<u8> = g.iter().map(|l| l.0).collect();
        let mut xs = vec![];
        let mut cur = s0.clone();
        let mut outs: Vec<u128> = vec![];
        for i in 0..n as usize {
            let a: Vec<u8> = g.iter().map(|l| ob_ab(l.1[i]).0).collect();
            let bb: Vec<u8> = g.iter().map(|l| ob_ab(l.1[i]).1).collect();
            if out == Out::Pre {
                outs.extend(cur.iter().map(|v| *v as u128));
                outs.extend(a.iter().map(|v| *v as u128));
                outs.extend(bb.iter().map(|v| *v as u128));
            }
            for (j, v) in cur.iter_mut().enumerate() {
                *v = (a[j] & *v) ^ bb[j];
            }
            xs.push(Value::from_vector(vec![bits_value(&a), bits_value(&bb)]));
        }
        let mut model: Vec<u128> = cur.iter().map(|v| *v as u128).collect();
        model.extend(outs);
        inputs.push(vec![bits_value(&s0), Value::from_vector(xs)]);
        models.push(Some(model));
    }
    finish(c, inputs, models, n_lanes)
}

// ------------------------------------------------------------------------------------------------
// small state: K bits, transition table per flavor, body built as algebraic normal form over GF(2)

pub fn small_step(flavor: Flavor, k: u64, s: u64, sym: u8) -> u64 {
    let m = (1u64 << k) - 1;
    if sym == 0 {
        return s;
    }
    match flavor {
        Flavor::Shift => match sym {
            1 => (s << 1) & m,
            2 => ((s << 1) | 1) & m,
            _ => s >> 1,
        },
        Flavor::Affine => match sym {
            1 => s ^ 1,
            2 => (s + 1) & m,
            _ => ((s << 1) | (s >> (k - 1))) & m,
        },
        Flavor::Counter => match sym {
            1 => std::cmp::min(s + 1, m),
            2 => s.saturating_sub(1),
            _ => 0,
        },
    }
}

/// monomials (variable masks) with coefficient 1 of output bit j of table f over nvars variables
fn anf(f: &dyn Fn(u64) -> u64, nvars: usize, j: usize) -> Vec<u64> {
    let mut c: Vec<u8> = (0..1u64 << nvars).map(|a| ((f(a) >> j) & 1) as u8).collect();
    for v in 0..nvars {
        for a in 0..1usize << nvars {
            if (a >> v) & 1 == 1 {
                c[a] ^= c[a ^ (1 << v)];
            }
        }
    }
    (0..1u64 << nvars).filter(|a| c[*a as usize] == 1).collect()
}

fn small_body(c: &Context, k: u64, flavor: Flavor, st: &Type, xt: &Type, out: Out) -> CR<Graph> {
    let b = c.create_graph()?;
    let s = b.input(st.clone())?;
    let x = b.input(xt.clone())?;
    let col = |n: &Node, j: u64| -> CR<Node> {
        n.get_slice(vec![SliceElement::Ellipsis, SliceElement::SingleIndex(j as i64)])
    };
    let mut vars = vec![];
    for j in 0..k {
        vars.push(col(&s, j)?);
    }
    for j in 0..2 {
        vars.push(col(&x, j)?);
    }
    let col_t = vars[0].get_type()?;
    let nvars = (k + 2) as usize;
    let table = |a: u64| -> u64 {
        let sv = a & ((1 << k) - 1);
        let sym = ((a >> k) & 3) as u8;
        small_step(flavor, k, sv, sym)
    };
    let mut mono: Vec<Option<Node>> = vec![None; 1 << nvars];
    let mut cols = vec![];
    for j in 0..k as usize {
        let ms = anf(&table, nvars, j);
        let mut acc: Option<Node> = None;
        for mask in ms {
            let term = if mask == 0 {
                b.ones(col_t.clone())?
            } else {
                // build (and share) the product of the variables of the mask
                let mut built: Option<Node> = None;
                let mut cur = 0u64;
                for v in 0..nvars {
                    if (mask >> v) & 1 == 1 {
                        cur |= 1 << v;
                        built = Some(match (&mono[cur as usize], &built) {
                            (Some(nd), _) => nd.clone(),
                            (None, None) => vars[v].clone(),
                            (None, Some(prev)) => prev.multiply(vars[v].clone())?,
                        });
                        mono[cur as usize] = built.clone();
                    }
                }
                built.unwrap()
            };
            acc = Some(match acc {
                None => term,
                Some(a) => a.add(term)?,
            });
        }
        cols.push(match acc {
            Some(a) => a,
            None => b.zeros(col_t.clone())?,
        });
    }
    let mut s2 = b.create_vector(col_t.clone(), cols)?.vector_to_array()?;
    let rank = st.get_shape().len();
    if rank > 1 {
        let mut perm: Vec<u64> = (0..rank as u64).collect();
        perm.rotate_left(1);
        s2 = s2.permute_axes(perm)?;
    }
    let o = out_node(&b, out, &s, &x)?;
    b.create_tuple(vec![s2, o])?.set_as_output()?;
    b.add_annotation(GraphAnnotation::SmallState)?;
    b.finalize()?;
    Ok(b)
}

/// symbol pairs of the two-point families: every unordered pair of distinct non-identity functions
/// (both position orders), plus each non-idempotent function twice
const SMALL_PAIRS: [(u8, u8); 5] = [(1, 3), (1, 2), (2, 3), (1, 1), (2, 2)];

/// how rich the input family of a K-bit variant is (the cost of one lane-step grows like 4^K)
#[derive(Clone, Copy, PartialEq, Eq, Debug)]
pub enum Level {
    Lean,
    Medium,
    Rich,
    Full,
}

pub fn small_level(k: u64, flavor: Flavor, shape: Shape, out: Out, n: usize, thorough: bool) -> Level {
    let primary = flavor == Flavor::Counter && shape == Shape::Lanes && out == Out::Pre;
    if primary {
        if k <= 2 && (thorough || n <= 17) {
            Level::Full
        } else {
            Level::Rich
        }
    } else if shape == Shape::Lanes && out == Out::Pre {
        Level::Medium
    } else {
        Level::Lean
    }
}

/// K-bit families. n <= nfull(K): all 4^n symbol sequences x all 2^K initial states. Above, always:
/// identity x all initial states, then by level
///  Lean:   dense sequences and one-point families at the boundary positions, one rotating initial state;
///  Medium: dense x 2 rotating initial states, one-point families at ALL positions x 1 rotating state;
///  Rich:   dense x min(2^K,4) states, one-point at all positions x (all states for K <= 2, else 2
///          rotating), two-point families for SMALL_PAIRS over the boundary positions (K = 3: every
///          2nd, K = 4: every 3rd boundary position in the quick tier) x 1 rotating state;
///  Full:   Rich + symbol pair (1,3) over ALL ordered position pairs.
/// Unbatched [K] (any level): identity x all states, a third of the dense sequences, one-point and
/// (1,3)/(2,1) two-point families over a thinned boundary set, rotating initial states.
pub fn small_lanes(k: u64, shape: Shape, n: usize, level: Level, thorough: bool) -> Vec<(u8, Vec<u8>)> {
    let states = 1u64 << k;
    let mut lanes = vec![];
    let flat = shape == Shape::Flat;
    let nfull = match (k, flat) {
        (1, false) => 5,
        (2, false) => 4,
        (3, false) => 3,
        (_, false) => 2,
        (1, true) | (2, true) => 3,
        (_, true) => 1,
    };
    if n <= nfull {
        for s in all_sequences(n) {
            for init in 0..states {
                lanes.push((init as u8, s.clone()));
            }
        }
        return lanes;
    }
    let mut rr = 0u64;
    let mut next_init = || {
        rr += 1;
        ((rr * 5 + 3) % states) as u8
    };
    for init in 0..states {
        lanes.push((init as u8, vec![0u8; n]));
    }
    let bpos = boundary_positions(n);
    let all: Vec<usize> = (0..n).collect();
    if flat {
        for s in dense_sequences(n).into_iter().step_by(3) {
            lanes.push((next_init(), s));
        }
        let thin = if k >= 3 { 3 } else { 2 };
        for (j, a) in bpos.iter().enumerate() {
            if k <= 2 || j % 2 == 0 {
                for p in 1..4u8 {
                    lanes.push((next_init(), one_point(n, *a, p)));
                }
            }
        }
        let few: Vec<usize> = bpos.iter().copied().step_by(if thorough { thin } else { thin + 2 }).collect();
        for s in two_point_over(n, &few, &[(1, 3), (2, 1)]) {
            lanes.push((next_init(), s));
        }
        lanes.truncate(lane_cap(k, shape, level, n, thorough));
        return lanes;
    }
    let dense_inits = match level {
        Level::Lean => 1,
        Level::Medium => 2,
        _ => std::cmp::min(states, 4),
    };
    for s in dense_sequences(n) {
        for _ in 0..dense_inits {
            lanes.push((next_init(), s.clone()));
        }
    }
    // boundary positions first: a cap (below) keeps the most interesting positions
    let mut ordered: Vec<usize> = bpos.clone();
    ordered.extend(all.iter().filter(|a| !bpos.contains(a)));
    let one_pos = if level == Level::Lean { &bpos } else { &ordered };
    for p in 1..4u8 {
        for a in one_pos.iter() {
            match level {
                Level::Lean | Level::Medium => lanes.push((next_init(), one_point(n, *a, p))),
                _ => {
                    if k <= 2 {
                        for init in 0..states {
                            lanes.push((init as u8, one_point(n, *a, p)));
                        }
                    } else {
                        let i0 = next_init();
                        lanes.push((i0, one_point(n, *a, p)));
                        lanes.push(((states - 1) as u8 - i0, one_point(n, *a, p)));
                    }
                }
            }
        }
    }
    if level == Level::Rich || level == Level::Full {
        let step = if thorough || k <= 2 {
            1
        } else if k == 3 {
            2
        } else {
            3
        };
        let pos: Vec<usize> = bpos.iter().copied().step_by(step).collect();
        for s in two_point_over(n, &pos, &SMALL_PAIRS) {
            lanes.push((next_init(), s));
        }
    }
    if level == Level::Full {
        for s in two_point_over(n, &all, &[(1, 3)]) {
            lanes.push((next_init(), s));
        }
    }
    lanes.truncate(lane_cap(k, shape, level, n, thorough));
    lanes
}

/// Lane budget of one (variant, n): the families above are generated in priority order (identity,
/// dense, one-point with boundary positions first, two-point) and the first `cap` lanes are run.
/// One lane-step costs roughly 15 us (K=1), 50 us (K=2), 170 us (K=3), 2.5 ms (K=4) per evaluation.
pub fn lane_cap(k: u64, shape: Shape, level: Level, n: usize, thorough: bool) -> usize {
    let states = 1usize << k;
    let steps: usize = if shape == Shape::Flat {
        match k {
            1 | 2 => return usize::MAX,
            3 => 300,
            _ => 120,
        }
    } else {
        match (k, level) {
            (1, _) => return usize::MAX,
            (2, Level::Full) | (2, Level::Rich) => 12_000,
            (2, Level::Medium) => 4_000,
            (2, Level::Lean) => 1_500,
            (3, Level::Full) | (3, Level::Rich) => 3_000,
            (3, Level::Medium) => 1_000,
            (3, Level::Lean) => 400,
            (_, Level::Full) | (_, Level::Rich) => 500,
            (_, Level::Medium) => 300,
            (_, Level::Lean) => 150,
        }
    };
    let steps = if !thorough {
        steps
    } else if k == 4 {
        steps * 4
    } else {
        steps * 2
    };
    std::cmp::max(steps / std::cmp::max(n, 1), states + 8)
}

fn build_small(k: u64, flavor: Flavor, shape: Shape, out: Out, n: u64, thorough: bool) -> CR<Built> {
    let level = small_level(k, flavor, shape, out, n as usize, thorough);
    let lanes = small_lanes(k, shape, n as usize, level, thorough);
    let n_lanes = lanes.len() as u64;
    let (m, groups) = group_lanes(shape, lanes, n as usize, lane_chunk(k));
    let st = lane_shape(shape, m, Some(k));
    let xt = lane_shape(shape, m, Some(2));
    let c = create_context()?;
    let b = small_body(&c, k, flavor, &st, &xt, out)?;
    main_iterate(&c, b, Some(st), xt, n)?;
    let state_bits = |vs: &[u64]| -> Vec<u8> {
        let mut o = vec![];
        for v in vs {
            for j in 0..k {
                o.push(((v >> j) & 1) as u8);
            }
        }
        o
    };
    let mut inputs = vec![];
    let mut models = vec![];
    for g in groups.iter() {
        let mut cur: Vec<u64> = g.iter().map(|l| l.0 as u64).collect();
        let s0 = bits_value(&state_bits(&cur));
        let mut xs = vec![];
        let mut outs: Vec<u128> = vec![];
        for i in 0..n as usize {
            let mut xb = vec![];
            for l in g.iter() {
                xb.push(l.1[i] & 1);
                xb.push((l.1[i] >> 1) & 1);
            }
            if out == Out::Pre {
                outs.extend(state_bits(&cur).iter().map(|v| *v as u128));
                outs.extend(xb.iter().map(|v| *v as u128));
            }
            for (j, v) in cur.iter_mut().enumerate() {
                *v = small_step(flavor, k, *v, g[j].1[i]);
            }
            xs.push(bits_value(&xb));
        }
        let mut model: Vec<u128> = state_bits(&cur).iter().map(|v| *v as u128).collect();
        model.extend(outs);
        inputs.push(vec![s0, Value::from_vector(xs)]);
        models.push(Some(model));
    }
    finish(c, inputs, models, n_lanes)
}

// ------------------------------------------------------------------------------------------------
// bodies that draw randomness

/// g_r(x) = (r, x + r) with r = Random(u64)
fn rand_graph(c: &Context) -> CR<Graph> {
    let g = c.create_graph()?;
    let x = g.input(u64t())?;
    let r = g.random(u64t())?;
    g.create_tuple(vec![r.clone(), x.add(r)?])?.set_as_output()?;
    g.finalize()?;
    Ok(g)
}

fn u64_item(p: usize, i: usize) -> Value {
    item(p + 3, i, &u64t())
}

fn build_random(kind: &Kind, n: u64) -> CR<Built> {
    let c = create_context()?;
    let mut inputs = vec![];
    match kind {
        Kind::RandEmpty => {
            let b = c.create_graph()?;
            let s = b.input(tuple_type(vec![]))?;
            let x = b.input(u64t())?;
            let r = b.random(u64t())?;
            let o = b.create_tuple(vec![r.clone(), x.add(r)?])?;
            b.create_tuple(vec![s, o])?.set_as_output()?;
            b.finalize()?;
            main_iterate(&c, b, None, u64t(), n)?;
            for p in 0..2 {
                inputs.push(vec![Value::from_vector((0..n as usize).map(|i| u64_item(p, i + 1)).collect())]);
            }
        }
        Kind::RandGeneral => {
            let b = c.create_graph()?;
            let s = b.input(u64t())?;
            let x = b.input(u64t())?;
            let r = b.random(u64t())?;
            let o = b.create_tuple(vec![r.clone(), x.add(r.clone())?])?;
            b.create_tuple(vec![s.add(r)?, o])?.set_as_output()?;
            b.finalize()?;
            main_iterate(&c, b, Some(u64t()), u64t(), n)?;
            for p in 0..2 {
                inputs.push(vec![
                    u64_item(p, 0),
                    Value::from_vector((0..n as usize).map(|i| u64_item(p, i + 1)).collect()),
                ]);
            }
        }
        Kind::RandCall => {
            // a random graph called from two places of a graph that is itself called from two places
            let gr = rand_graph(&c)?;
            let mid = c.create_graph()?;
            let x = mid.input(u64t())?;
            let c1 = mid.call(gr.clone(), vec![x.clone()])?;
            let c2 = mid.call(gr, vec![x])?;
            mid.create_tuple(vec![c1, c2])?.set_as_output()?;
            mid.finalize()?;
            let g = c.create_graph()?;
            let x = g.input(u64t())?;
            let m1 = g.call(mid.clone(), vec![x.clone()])?;
            let m2 = g.call(mid, vec![x])?;
            g.create_tuple(vec![m1, m2])?.set_as_output()?;
            g.finalize()?;
            c.set_main_graph(g)?;
            c.finalize()?;
            for p in 0..2 {
                inputs.push(vec![u64_item(p, 1)]);
            }
        }
        Kind::RandNested => {
            // body(s,x): c1 = g_r(x), c2 = g_r(s); s' = s + c1.r; out = (c1.r, c2.r)
            let gr = rand_graph(&c)?;
            let b = c.create_graph()?;
            let s = b.input(u64t())?;
            let x = b.input(u64t())?;
            let c1 = b.call(gr.clone(), vec![x])?;
            let c2 = b.call(gr, vec![s.clone()])?;
            let o = b.create_tuple(vec![c1.tuple_get(0)?, c2.tuple_get(0)?])?;
            b.create_tuple(vec![s.add(c1.tuple_get(0)?)?, o])?.set_as_output()?;
            b.finalize()?;
            main_iterate(&c, b, Some(u64t()), u64t(), n)?;
            for p in 0..2 {
                inputs.push(vec![
                    u64_item(p, 0),
                    Value::from_vector((0..n as usize).map(|i| u64_item(p, i + 1)).collect()),
                ]);
            }
        }
        _ => unreachable!(),
    }
    let models = inputs.iter().map(|_| None).collect();
    finish(c, inputs, models, 0)
}

/// Value-level consequences of "one fresh Random per copy" that hold for ANY random values:
/// the algebraic relations of the body, and pairwise distinct 64-bit draws.
/// `flat` is the canonical flattening of the output, `ins` of the inputs.
pub fn random_relations(kind: &Kind, n: u64, ins: &[u128], flat: &[u128]) -> Result<(), String> {
    let m = u64::MAX as u128;
    let n = n as usize;
    let mut draws: Vec<u128> = vec![];
    match kind {
        Kind::RandEmpty => {
            if flat.len() != 2 * n || ins.len() != n {
                return Err("unexpected output length".into());
            }
            for i in 0..n {
                if (ins[i] + flat[2 * i]) & m != flat[2 * i + 1] {
                    return Err(format!("output {}: second component is not x + r", i));
                }
                draws.push(flat[2 * i]);
            }
        }
        Kind::RandGeneral => {
            if flat.len() != 1 + 2 * n || ins.len() != 1 + n {
                return Err("unexpected output length".into());
            }
            let mut acc = ins[0];
            for i in 0..n {
                if (ins[1 + i] + flat[1 + 2 * i]) & m != flat[2 + 2 * i] {
                    return Err(format!("output {}: second component is not x + r", i));
                }
                acc = (acc + flat[1 + 2 * i]) & m;
                draws.push(flat[1 + 2 * i]);
            }
            if acc != flat[0] {
                return Err("final state is not s0 + sum of the draws reported in the outputs".into());
            }
        }
        Kind::RandCall => {
            if flat.len() != 8 || ins.len() != 1 {
                return Err("unexpected output length".into());
            }
            for i in 0..4 {
                if (ins[0] + flat[2 * i]) & m != flat[2 * i + 1] {
                    return Err(format!("call {}: second component is not x + r", i));
                }
                draws.push(flat[2 * i]);
            }
        }
        Kind::RandNested => {
            if flat.len() != 1 + 2 * n || ins.len() != 1 + n {
                return Err("unexpected output length".into());
            }
            let mut acc = ins[0];
            for i in 0..n {
                acc = (acc + flat[1 + 2 * i]) & m;
                draws.push(flat[1 + 2 * i]);
                draws.push(flat[2 + 2 * i]);
            }
            if acc != flat[0] {
                return Err("final state is not s0 + sum of the first draws".into());
            }
        }
        _ => {}
    }
    let mut sorted = draws.clone();
    sorted.sort();
    for w in sorted.windows(2) {
        if w[0] == w[1] {
            return Err(format!(
                "two copies of the body returned the same 64-bit draw {} (shared Random node)",
                w[0]
            ));
        }
    }
    Ok(())
}

// ------------------------------------------------------------------------------------------------
// nested calls and iterations

fn build_nested(which: u8, assoc: bool, n: u64) -> CR<Built> {
    let c = create_context()?;
    let t = u64t();
    let mut inputs = vec![];
    let seq = |p: usize, len: u64, off: usize| -> Value {
        Value::from_vector((0..len as usize).map(|i| u64_item(p, off + i + 1)).collect())
    };
    match which {
        1 => {
            // f(a,b) = 3a + b (or a + b); body(s,x) = (f(s,x), f(x,s)) [annotated: (f(s,x), (s,x))];
            // main = (Iterate(body, s0, xs), f(final, s0))
            let f = c.create_graph()?;
            {
                let a = f.input(t.clone())?;
                let b = f.input(t.clone())?;
                let r = if assoc { a.add(b)? } else { a.add(a.clone())?.add(a)?.add(b)? };
                r.set_as_output()?;
                f.finalize()?;
            }
            let body = c.create_graph()?;
            {
                let s = body.input(t.clone())?;
                let x = body.input(t.clone())?;
                let s2 = body.call(f.clone(), vec![s.clone(), x.clone()])?;
                let o = if assoc {
                    body.create_tuple(vec![s, x])?
                } else {
                    body.call(f.clone(), vec![x, s])?
                };
                body.create_tuple(vec![s2, o])?.set_as_output()?;
                if assoc {
                    body.add_annotation(GraphAnnotation::AssociativeOperation)?;
                }
                body.finalize()?;
            }
            let g = c.create_graph()?;
            let s0 = g.input(t.clone())?;
            let xs = g.input(vector_type(n, t.clone()))?;
            let it = g.iterate(body, s0.clone(), xs)?;
            let y = g.call(f, vec![it.tuple_get(0)?, s0])?;
            g.create_tuple(vec![it, y])?.set_as_output()?;
            g.finalize()?;
            c.set_main_graph(g)?;
            for p in 0..3 {
                inputs.push(vec![u64_item(p, 0), seq(p, n, 0)]);
            }
        }
        2 | 4 => {
            // body(s,x) = (2s + x, s*x) [annotated: (s + x, (s,x))]
            let body = c.create_graph()?;
            {
                let s = body.input(t.clone())?;
                let x = body.input(t.clone())?;
                if assoc {
                    let o = body.create_tuple(vec![s.clone(), x.clone()])?;
                    body.create_tuple(vec![s.add(x)?, o])?.set_as_output()?;
                    body.add_annotation(GraphAnnotation::AssociativeOperation)?;
                } else {
                    let s2 = s.add(s.clone())?.add(x.clone())?;
                    body.create_tuple(vec![s2, s.multiply(x)?])?.set_as_output()?;
                }
                body.finalize()?;
            }
            if which == 2 {
                // outer(s0,xs) = Iterate(body, s0, xs); main = (outer(s0,xs), outer(r1.final, xs))
                let outer = c.create_graph()?;
                {
                    let s0 = outer.input(t.clone())?;
                    let xs = outer.input(vector_type(n, t.clone()))?;
                    outer.iterate(body, s0, xs)?.set_as_output()?;
                    outer.finalize()?;
                }
                let g = c.create_graph()?;
                let s0 = g.input(t.clone())?;
                let xs = g.input(vector_type(n, t.clone()))?;
                let r1 = g.call(outer.clone(), vec![s0, xs.clone()])?;
                let r2 = g.call(outer, vec![r1.tuple_get(0)?, xs])?;
                g.create_tuple(vec![r1, r2])?.set_as_output()?;
                g.finalize()?;
                c.set_main_graph(g)?;
                for p in 0..4 {
                    inputs.push(vec![u64_item(p, 0), seq(p, n, 0)]);
                }
            } else {
                // the same graph is called and iterated:
                // main(a,b,xs) = (Iterate(body, body(a,b).0, xs), body(final, a))
                let g = c.create_graph()?;
                let a = g.input(t.clone())?;
                let b = g.input(t.clone())?;
                let xs = g.input(vector_type(n, t.clone()))?;
                let o1 = g.call(body.clone(), vec![a.clone(), b])?.tuple_get(0)?;
                let it = g.iterate(body.clone(), o1, xs)?;
                let last = g.call(body, vec![it.tuple_get(0)?, a])?;
                g.create_tuple(vec![it, last])?.set_as_output()?;
                g.finalize()?;
                c.set_main_graph(g)?;
                for p in 0..4 {
                    inputs.push(vec![u64_item(p, 0), u64_item(p + 1, 3), seq(p, n, 0)]);
                }
            }
        }
        3 => {
            // inner(s,x) = (2s + x, s + x) [annotated: (s + x, (s,x))]; outer(s, v) = Iterate(inner, s, v)
            // with v a vector of 3; main(s0, vs) = Iterate(outer, s0, vs)
            let k = 3u64;
            let inner = c.create_graph()?;
            {
                let s = inner.input(t.clone())?;
                let x = inner.input(t.clone())?;
                if assoc {
                    let o = inner.create_tuple(vec![s.clone(), x.clone()])?;
                    inner.create_tuple(vec![s.add(x)?, o])?.set_as_output()?;
                    inner.add_annotation(GraphAnnotation::AssociativeOperation)?;
                } else {
                    let s2 = s.add(s.clone())?.add(x.clone())?;
                    inner.create_tuple(vec![s2, s.add(x)?])?.set_as_output()?;
                }
                inner.finalize()?;
            }
            let outer = c.create_graph()?;
            {
                let s = outer.input(t.clone())?;
                let v = outer.input(vector_type(k, t.clone()))?;
                outer.iterate(inner, s, v)?.set_as_output()?;
                outer.finalize()?;
            }
            let g = c.create_graph()?;
            let s0 = g.input(t.clone())?;
            let vs = g.input(vector_type(n, vector_type(k, t.clone())))?;
            g.iterate(outer, s0, vs)?.set_as_output()?;
            g.finalize()?;
            c.set_main_graph(g)?;
            for p in 0..4 {
                let vs = Value::from_vector((0..n as usize).map(|i| seq(p, k, 3 * i)).collect());
                inputs.push(vec![u64_item(p, 0), vs]);
            }
        }
        _ => {
            // one-bit body (annotated OneBitState when `assoc`) iterated inside a called graph
            let bt = scalar_type(BIT);
            let xt = tuple_type(vec![bt.clone(), bt.clone()]);
            let body = c.create_graph()?;
            {
                let s = body.input(bt.clone())?;
                let x = body.input(xt.clone())?;
                let s2 = x.tuple_get(0)?.multiply(s.clone())?.add(x.tuple_get(1)?)?;
                body.create_tuple(vec![s2, s])?.set_as_output()?;
                if assoc {
                    body.add_annotation(GraphAnnotation::OneBitState)?;
                }
                body.finalize()?;
            }
            let outer = c.create_graph()?;
            {
                let s0 = outer.input(bt.clone())?;
                let xs = outer.input(vector_type(n, xt.clone()))?;
                outer.iterate(body, s0, xs)?.set_as_output()?;
                outer.finalize()?;
            }
            let g = c.create_graph()?;
            let s0 = g.input(bt.clone())?;
            let xs = g.input(vector_type(n, xt))?;
            let r1 = g.call(outer.clone(), vec![s0, xs.clone()])?;
            let r2 = g.call(outer, vec![r1.tuple_get(0)?, xs])?;
            g.create_tuple(vec![r1, r2])?.set_as_output()?;
            g.finalize()?;
            c.set_main_graph(g)?;
            for p in 0..4usize {
                let xs = Value::from_vector(
                    (0..n as usize)
                        .map(|i| {
                            let (a, b) = ob_ab(((i * (p + 1) + p + i / 3) % 4) as u8);
                            Value::from_vector(vec![bits_value(&[a]), bits_value(&[b])])
                        })
                        .collect(),
                );
                inputs.push(vec![bits_value(&[(p % 2) as u8]), xs]);
            }
        }
    }
    c.finalize()?;
    let models = inputs.iter().map(|_| None).collect();
    finish(c, inputs, models, 0)
}

// ------------------------------------------------------------------------------------------------
// bodies outside the stated contracts (documented behaviour, not judged)

pub fn probe_what(which: u8) -> &'static str {
    match which {
        0 => "AssociativeOperation with state type != input type",
        1 => "SmallState with a scalar bit state",
        2 => "SmallState with K = 5 bits",
        3 => "OneBitState with a u8 state",
        _ => "SmallState with a tuple state",
    }
}

fn build_probe(which: u8, n: u64) -> CR<Built> {
    let c = create_context()?;
    let b = c.create_graph()?;
    let bt = scalar_type(BIT);
    let (st, xt) = match which {
        0 => (u64t(), array_type(vec![2], UINT64)),
        1 => (bt.clone(), bt.clone()),
        2 => (array_type(vec![5], BIT), array_type(vec![5], BIT)),
        3 => (scalar_type(UINT8), scalar_type(UINT8)),
        _ => (tuple_type(vec![bt.clone(), bt.clone()]), bt.clone()),
    };
    let s = b.input(st.clone())?;
    let x = b.input(xt.clone())?;
    let s2 = match which {
        0 => s.add(x.get(vec![0])?)?.add(x.get(vec![1])?)?,
        4 => b.create_tuple(vec![s.tuple_get(1)?, s.tuple_get(0)?.add(x.clone())?])?,
        _ => s.add(x.clone())?,
    };
    let o = b.create_tuple(vec![s.clone(), x])?;
    b.create_tuple(vec![s2, o])?.set_as_output()?;
    b.add_annotation(match which {
        0 => GraphAnnotation::AssociativeOperation,
        3 => GraphAnnotation::OneBitState,
        _ => GraphAnnotation::SmallState,
    })?;
    b.finalize()?;
    main_iterate(&c, b, Some(st.clone()), xt.clone(), n)?;
    let mk = |t: &Type, i: usize| -> Value {
        match t {
            Type::Tuple(ts) => Value::from_vector(ts.iter().map(|tt| item(4, i, tt)).collect()),
            _ => item(4, i, t),
        }
    };
    let inputs = vec![vec![
        mk(&st, 0),
        Value::from_vector((0..n as usize).map(|i| mk(&xt, i + 1)).collect()),
    ]];
    finish(c, inputs, vec![None], 0)
}
