//! Helpers shared by C16 and C17: bit-string packing, independent broadcasting, building one graph
//! with a single custom operation through the real pipeline (instantiate + inline) and evaluating it.
use crate::common::catch;
use crate::mpcx::eval_plain;
use ciphercore_base::custom_ops::{run_instantiation_pass, CustomOperation};
use ciphercore_base::data_types::{array_type, scalar_type, ScalarType, Type, BIT};
use ciphercore_base::data_values::Value;
use ciphercore_base::graphs::{create_context, Context, Operation};
use ciphercore_base::inline::inline_common::DepthOptimizationLevel;
use ciphercore_base::inline::inline_ops::{inline_operations, InlineConfig, InlineMode};
use serde_json::{json, Value as J};

pub fn mask(w: u32) -> u128 {
    if w >= 128 {
        u128::MAX
    } else {
        (1u128 << w) - 1
    }
}

/// two's complement value of the w-bit pattern v
pub fn sext(v: u128, w: u32) -> i128 {
    // move the sign bit to bit 127, then shift back arithmetically
    let sh = 128 - w;
    ((v << sh) as i128) >> sh
}

pub fn hex(v: u128) -> String {
    format!("0x{:x}", v)
}

pub fn unhex(s: &str) -> u128 {
    u128::from_str_radix(s.trim_start_matches("0x"), 16).unwrap_or(0)
}

pub fn hex_list(v: &[u128]) -> J {
    if v.len() > 16 {
        json!(format!("<{} words, generated from the layout>", v.len()))
    } else {
        J::Array(v.iter().map(|x| json!(hex(*x))).collect())
    }
}

/// words (little-endian bits, `w` bits each) -> value of a bit array [.., w] (row-major, 8 bits per byte, LSB first)
pub fn pack_words(vals: &[u128], w: u32) -> Value {
    let total = vals.len() * w as usize;
    let mut out = vec![0u8; (total + 7) / 8];
    let mut pos = 0usize;
    for v in vals {
        for j in 0..w {
            if (v >> j) & 1 == 1 {
                out[pos >> 3] |= 1 << (pos & 7);
            }
            pos += 1;
        }
    }
    Value::from_bytes(out)
}

/// inverse of pack_words; None if the byte length is not that of n*w bits or padding bits are set
pub fn unpack_words(v: &Value, n: usize, w: u32) -> Option<Vec<u128>> {
    let total = n * w as usize;
    v.access_bytes(|b| {
        if b.len() != (total + 7) / 8 {
            return Ok(None);
        }
        if total % 8 != 0 && (b[b.len() - 1] >> (total % 8)) != 0 {
            return Ok(None);
        }
        let mut out = Vec::with_capacity(n);
        let mut pos = 0usize;
        for _ in 0..n {
            let mut x = 0u128;
            for j in 0..w {
                if (b[pos >> 3] >> (pos & 7)) & 1 == 1 {
                    x |= 1u128 << j;
                }
                pos += 1;
            }
            out.push(x);
        }
        Ok(Some(out))
    })
    .ok()
    .flatten()
}

pub fn unpack_bits(v: &Value, n: usize) -> Option<Vec<u128>> {
    unpack_words(v, n, 1)
}

/// bit type of a shape; the empty shape is the scalar
pub fn bit_t(shape: &[u64]) -> Type {
    typ(shape, BIT)
}

pub fn typ(shape: &[u64], st: ScalarType) -> Type {
    if shape.is_empty() {
        scalar_type(st)
    } else {
        array_type(shape.to_vec(), st)
    }
}

pub fn numel(shape: &[u64]) -> usize {
    shape.iter().product::<u64>() as usize
}

/// NumPy broadcasting of two shapes, written here independently of the library
pub fn bcast_shape(a: &[u64], b: &[u64]) -> Option<Vec<u64>> {
    let n = a.len().max(b.len());
    let mut out = vec![0u64; n];
    for i in 0..n {
        let da = if i + a.len() >= n { a[i + a.len() - n] } else { 1 };
        let db = if i + b.len() >= n { b[i + b.len() - n] } else { 1 };
        out[i] = if da == db {
            da
        } else if da == 1 {
            db
        } else if db == 1 {
            da
        } else {
            return None;
        };
    }
    Some(out)
}

/// flat index into an operand of shape `inp` for the flat index `idx` of the broadcast result `out`
pub fn bcast_index(out: &[u64], mut idx: usize, inp: &[u64]) -> usize {
    let n = out.len();
    let off = n - inp.len();
    let mut res = 0usize;
    let mut stride = 1usize;
    for i in (0..n).rev() {
        let c = idx % out[i] as usize;
        idx /= out[i] as usize;
        if i >= off {
            let d = inp[i - off] as usize;
            let ci = if d == 1 { 0 } else { c };
            res += ci * stride;
            stride *= d;
        }
    }
    res
}

pub fn mode_of(name: &str) -> InlineMode {
    match name {
        "depth" => InlineMode::DepthOptimized(DepthOptimizationLevel::Default),
        "extreme" => InlineMode::DepthOptimized(DepthOptimizationLevel::Extreme),
        _ => InlineMode::Simple,
    }
}

pub struct Built {
    pub ctx: Context,
    pub out_t: Type,
    pub nodes: u64,
}

/// One graph: inputs of the given types -> the custom operation -> output; then the real
/// instantiation pass and the real inliner. Errors and panics of the library become Err(text).
pub static NS_BUILD: std::sync::atomic::AtomicU64 = std::sync::atomic::AtomicU64::new(0);
pub static NS_EVAL: std::sync::atomic::AtomicU64 = std::sync::atomic::AtomicU64::new(0);

/// CPU-time split for tuning (printed to stderr when VERIF_PROFILE is set; never part of the evidence)
pub fn profile_report() {
    if std::env::var("VERIF_PROFILE").is_ok() {
        use std::sync::atomic::Ordering::Relaxed;
        eprintln!(
            "profile: build {:.1} s, eval {:.1} s (summed over threads)",
            NS_BUILD.load(Relaxed) as f64 / 1e9,
            NS_EVAL.load(Relaxed) as f64 / 1e9
        );
    }
}

pub fn build(op: CustomOperation, in_types: &[Type], mode: &str) -> Result<Built, String> {
    let t0 = std::time::Instant::now();
    let r = build_inner(op, in_types, mode);
    NS_BUILD.fetch_add(t0.elapsed().as_nanos() as u64, std::sync::atomic::Ordering::Relaxed);
    r
}

fn build_inner(op: CustomOperation, in_types: &[Type], mode: &str) -> Result<Built, String> {
    let mode = mode_of(mode);
    let tys = in_types.to_vec();
    let r = catch(move || -> ciphercore_base::errors::Result<Built> {
        let c = create_context()?;
        let g = c.create_graph()?;
        let mut ins = vec![];
        for t in tys.iter() {
            ins.push(g.input(t.clone())?);
        }
        let o = g.custom_op(op, ins)?;
        g.set_output_node(o)?;
        g.finalize()?;
        c.set_main_graph(g)?;
        c.finalize()?;
        let inst = run_instantiation_pass(c)?.get_context();
        let inl = inline_operations(
            &inst,
            InlineConfig { default_mode: mode, ..Default::default() },
        )?
        .get_context();
        let mg = inl.get_main_graph()?;
        let mut n = 0u64;
        let mut inlined = true;
        for node in mg.get_nodes() {
            n += 1;
            if matches!(
                node.get_operation(),
                Operation::Call | Operation::Iterate | Operation::Custom(_)
            ) {
                inlined = false;
            }
        }
        let out_t = mg.get_output_node()?.get_type()?;
        Ok(Built { ctx: inl, out_t, nodes: if inlined { n } else { 0 } })
    });
    match r {
        Ok(Ok(b)) if b.nodes == 0 => Err("error: graph is not fully inlined".to_string()),
        Ok(Ok(b)) => Ok(b),
        Ok(Err(e)) => Err(format!("error: {}", e.to_string().lines().next().unwrap_or(""))),
        Err(p) => Err(format!("panic: {}", p)),
    }
}

pub fn eval(b: &Built, inputs: &[Value]) -> Result<Value, String> {
    let t0 = std::time::Instant::now();
    let r = eval_plain(&b.ctx, inputs, 1);
    NS_EVAL.fetch_add(t0.elapsed().as_nanos() as u64, std::sync::atomic::Ordering::Relaxed);
    r
}

/// Result of one job (one graph configuration), merged by the caller in enumeration order.
#[derive(Default)]
pub struct JobOut {
    pub counters: Vec<(String, u64)>,
    pub distinct: Vec<String>,
    pub samples: Vec<J>,
    pub violations: Vec<(String, String, J)>,
}

impl JobOut {
    pub fn count(&mut self, k: &str, n: u64) {
        if n == 0 {
            return;
        }
        if let Some(e) = self.counters.iter_mut().find(|e| e.0 == k) {
            e.1 += n;
        } else {
            self.counters.push((k.to_string(), n));
        }
    }
    /// only the first case per signature is kept inside a job, too
    pub fn violation(&mut self, sig: &str, what: String, case: J) {
        self.count("violating_elements", 1);
        if self.violations.iter().any(|v| v.0 == sig) {
            return;
        }
        self.violations.push((sig.to_string(), what, case));
    }
    pub fn merge_into(self, r: &crate::common::Report) {
        for (k, n) in self.counters {
            r.count(&k, n);
        }
        for d in self.distinct {
            r.distinct_str(&d);
        }
        for s in self.samples {
            r.sample(s);
        }
        for (sig, what, case) in self.violations {
            r.violation(&sig, &what, case);
        }
    }
}

/// value alphabet of width w: neighbourhoods of 0, 2^(w-1), 2^w-1 (mod 2^w) and the two alternating patterns
pub fn value_alphabet(w: u32) -> Vec<u128> {
    let m = mask(w);
    let half = 1u128 << (w - 1);
    let mut v: Vec<u128> = vec![];
    let mut push = |x: u128| {
        let x = x & m;
        if !v.contains(&x) {
            v.push(x);
        }
    };
    for c in [0u128, half, m] {
        for d in [0i32, 1, -1, 2, -2] {
            push(if d >= 0 { c.wrapping_add(d as u128) } else { c.wrapping_sub((-d) as u128) });
        }
    }
    push(0x5555_5555_5555_5555_5555_5555_5555_5555);
    push(0xAAAA_AAAA_AAAA_AAAA_AAAA_AAAA_AAAA_AAAA);
    v
}

pub fn window(v: &[u128], start: usize, len: usize) -> Vec<u128> {
    (0..len).map(|k| v[(start + k) % v.len()]).collect()
}

/// Operand layouts shared by the two-operand bit-string operations:
/// (shape of a, shape of b, list of evaluations (words of a, words of b)).
/// paired [P,w]x[P,w] (pairs from `pair_list`), outer [M,1,w]x[1,M,w] (all values for w<=8, else the value
/// alphabet), single [w]x[w], b3 [3,w]x[w], b3r [w]x[3,w], b213 [2,1,w]x[1,3,w] (windows over the value alphabet).
pub fn layout(
    w: u32,
    layout: &str,
    pair_list: fn(u32) -> (Vec<u128>, Vec<u128>),
) -> (Vec<u64>, Vec<u64>, Vec<(Vec<u128>, Vec<u128>)>) {
    let wu = w as u64;
    let vals: Vec<u128> = if w <= 8 { (0..(1u128 << w)).collect() } else { value_alphabet(w) };
    let valpha = value_alphabet(w);
    match layout {
        "paired" => {
            let (a, b) = pair_list(w);
            let p = a.len() as u64;
            (vec![p, wu], vec![p, wu], vec![(a, b)])
        }
        "outer" => {
            let m = vals.len() as u64;
            (vec![m, 1, wu], vec![1, m, wu], vec![(vals.clone(), vals)])
        }
        "single" => {
            // one pair per evaluation, rank-1 operands
            let sub: Vec<u128> = if w <= 2 { vals } else { valpha.iter().copied().take(9).collect() };
            let mut ev = vec![];
            for x in sub.iter() {
                for y in sub.iter() {
                    ev.push((vec![*x], vec![*y]));
                }
            }
            (vec![wu], vec![wu], ev)
        }
        "b3" | "b3r" => {
            let mut ev = vec![];
            let mut i = 0;
            while i < valpha.len() {
                for y in valpha.iter() {
                    if layout == "b3" {
                        ev.push((window(&valpha, i, 3), vec![*y]));
                    } else {
                        ev.push((vec![*y], window(&valpha, i, 3)));
                    }
                }
                i += 3;
            }
            if layout == "b3" {
                (vec![3, wu], vec![wu], ev)
            } else {
                (vec![wu], vec![3, wu], ev)
            }
        }
        "c31" | "c41s" | "c2313" => {
            // operands whose last non-bit dimension is 1 next to a larger one (the comparison result then ends in
            // a dimension of size 1): two columns [3,1,w]x[3,1,w]; a column and a single string [4,1,w]x[w];
            // [2,3,1,w]x[3,1,w]
            let (na, nb, sa, sb): (usize, usize, Vec<u64>, Vec<u64>) = match layout {
                "c31" => (3, 3, vec![3, 1, wu], vec![3, 1, wu]),
                "c41s" => (4, 1, vec![4, 1, wu], vec![wu]),
                _ => (6, 3, vec![2, 3, 1, wu], vec![3, 1, wu]),
            };
            let mut ev = vec![];
            let mut i = 0;
            while i < valpha.len() {
                let mut j = 0;
                while j < valpha.len() {
                    ev.push((window(&valpha, i, na), window(&valpha, j, nb)));
                    j += nb.max(2);
                }
                i += na;
            }
            (sa, sb, ev)
        }
        _ => {
            // "b213": [2,1,w] x [1,3,w]
            let mut ev = vec![];
            let mut i = 0;
            while i < valpha.len() {
                let mut j = 0;
                while j < valpha.len() {
                    ev.push((window(&valpha, i, 2), window(&valpha, j, 3)));
                    j += 3;
                }
                i += 2;
            }
            (vec![2, 1, wu], vec![1, 3, wu], ev)
        }
    }
}

