//! Curated program families for C01/C02/C04 that the recipe grammar cannot express cheaply:
//! sort, permutation, joins, custom operations, user-level Call/Iterate bodies.
use super::c01::Prog;
use crate::mpcx::Owner;
use crate::vals;
use ciphercore_base::custom_ops::CustomOperation;
use ciphercore_base::data_types::{
    array_type, named_tuple_type, scalar_type, tuple_type, vector_type, Type, BIT, INT32, UINT64, UINT8,
};
use ciphercore_base::data_values::Value;
use ciphercore_base::errors::Result;
use ciphercore_base::graphs::{create_context, Context, Graph, GraphAnnotation, JoinType, SliceElement};
use ciphercore_base::ops::comparisons::{Equal, GreaterThan, LessThanEqualTo};
use ciphercore_base::ops::min_max::{Max, Min};
use ciphercore_base::ops::multiplexer::Mux;
use ciphercore_base::type_inference::NULL_HEADER;
use std::collections::HashMap;
use std::sync::Arc;

fn ctx_of(f: impl Fn(&Context) -> Result<Graph>) -> std::result::Result<Context, String> {
    let go = || -> Result<Context> {
        let c = create_context()?;
        let g = f(&c)?;
        g.finalize()?;
        c.set_main_graph(g)?;
        c.finalize()?;
        Ok(c)
    };
    match crate::common::catch(go) {
        Ok(Ok(c)) => Ok(c),
        Ok(Err(e)) => Err(e.to_string()),
        Err(p) => Err(p),
    }
}

fn prog(
    desc: &str,
    class: &str,
    f: impl Fn(&Context) -> Result<Graph> + Send + Sync + 'static,
) -> Prog {
    Prog {
        desc: desc.to_string(),
        class: class.to_string(),
        build: Arc::new(move || ctx_of(&f)),
        owners: None,
        outs: None,
        inputs: None,
        allowed_abort: None,
    }
}

fn table_type(n: u64, key_st: ciphercore_base::data_types::ScalarType, payload: &str) -> Type {
    named_tuple_type(vec![
        (NULL_HEADER.to_owned(), array_type(vec![n], BIT)),
        ("ID".to_owned(), array_type(vec![n], key_st)),
        (payload.to_owned(), array_type(vec![n], INT32)),
    ])
}

fn table_value(null: &[u128], ids: &[u128], pay: &[u128]) -> Value {
    Value::from_vector(vec![
        vals::arr_value(null, &BIT),
        vals::arr_value(ids, &UINT8),
        vals::arr_value(pay, &INT32),
    ])
}

pub fn join_prog(jt: JoinType, n1: u64, n2: u64, name: &str, owners: Vec<Vec<Owner>>) -> Prog {
    let jt2 = jt.clone();
    let mut p = prog(&format!("join {} {}x{}", name, n1, n2), &format!("Join{}", name), move |c| {
        let g = c.create_graph()?;
        let a = g.input(table_type(n1, UINT8, "A"))?;
        let b = g.input(table_type(n2, UINT8, "B"))?;
        let j = g.join(a, b, jt2.clone(), HashMap::from([("ID".to_owned(), "ID".to_owned())]))?;
        j.set_as_output()?;
        Ok(g)
    });
    p.owners = Some(owners);
    p.allowed_abort = Some("uckoo");
    p.inputs = Some(Arc::new(move || {
        // unique live keys; null rows anywhere; partial overlap
        let t1: Vec<Value> = if n1 == 2 {
            vec![
                table_value(&[1, 1], &[5, 7], &[10, 20]),
                table_value(&[1, 0], &[7, 0], &[30, 0]),
                table_value(&[0, 0], &[0, 0], &[0, 0]),
            ]
        } else {
            vec![
                table_value(&[1, 1, 1], &[5, 7, 9], &[10, 20, 30]),
                table_value(&[0, 1, 1], &[0, 9, 5], &[0, 40, 50]),
            ]
        };
        let t2: Vec<Value> = if n2 == 2 {
            vec![
                table_value(&[1, 1], &[7, 8], &[100, 200]),
                table_value(&[0, 1], &[0, 5], &[0, 300]),
            ]
        } else {
            vec![
                table_value(&[1, 1, 1], &[9, 8, 7], &[100, 200, 300]),
                table_value(&[1, 0, 1], &[5, 0, 6], &[400, 0, 500]),
            ]
        };
        let mut out = vec![];
        for a in t1.iter() {
            for b in t2.iter() {
                out.push(vec![a.clone(), b.clone()]);
            }
        }
        out
    }));
    p
}

pub fn programs(thorough: bool) -> Vec<Prog> {
    let mut v = vec![];
    // comparisons / min / max / mux on 4-bit strings obtained by A2B of u8? (8-bit strings)
    for (name, signed) in [("gt-signed", true), ("gt-unsigned", false)] {
        v.push(prog(&format!("a2b;{}", name), "Custom:GreaterThan", move |c| {
        let g = c.create_graph()?;
            let x = g.input(array_type(vec![2], UINT8))?;
            let y = g.input(array_type(vec![2], UINT8))?;
            let o = g.custom_op(
                CustomOperation::new(GreaterThan { signed_comparison: signed }),
                vec![x.a2b()?, y.a2b()?],
            )?;
            o.set_as_output()?;
            Ok(g)
        }));
    }
    v.push(prog("equal on bit strings", "Custom:Equal", |c| {
        let g = c.create_graph()?;
        let x = g.input(array_type(vec![2, 8], BIT))?;
        let y = g.input(array_type(vec![2, 8], BIT))?;
        g.custom_op(CustomOperation::new(Equal {}), vec![x, y])?.set_as_output()?;
        Ok(g)
    }));
    v.push(prog("lte then mixed multiply", "Custom:LessThanEqualTo+MixedMul", |c| {
        let g = c.create_graph()?;
        let x = g.input(array_type(vec![2], UINT8))?;
        let y = g.input(array_type(vec![2], UINT8))?;
        let b = g.custom_op(
            CustomOperation::new(LessThanEqualTo { signed_comparison: false }),
            vec![x.a2b()?, y.a2b()?],
        )?;
        x.mixed_multiply(b)?.set_as_output()?;
        Ok(g)
    }));
    for (name, is_min) in [("min", true), ("max", false)] {
        v.push(prog(&format!("{} signed then b2a", name), "Custom:MinMax", move |c| {
        let g = c.create_graph()?;
            let x = g.input(array_type(vec![2], INT32))?;
            let y = g.input(array_type(vec![2], INT32))?;
            let op = if is_min {
                CustomOperation::new(Min { signed_comparison: true })
            } else {
                CustomOperation::new(Max { signed_comparison: true })
            };
            g.custom_op(op, vec![x.a2b()?, y.a2b()?])?.b2a(INT32)?.set_as_output()?;
            Ok(g)
        }));
    }
    v.push(prog("mux(bit, x, y)", "Custom:Mux", |c| {
        let g = c.create_graph()?;
        let s = g.input(array_type(vec![2, 1], BIT))?;
        let x = g.input(array_type(vec![2, 8], BIT))?;
        let y = g.input(array_type(vec![2, 8], BIT))?;
        g.custom_op(CustomOperation::new(Mux {}), vec![s, x, y])?.set_as_output()?;
        Ok(g)
    }));
    // user-level Call: f(a,b) = a*b + a used twice with swapped arguments
    v.push(prog("call f twice", "Call", |c| {
        let f = c.create_graph()?;
        let a = f.input(array_type(vec![2], INT32))?;
        let b = f.input(array_type(vec![2], INT32))?;
        a.multiply(b)?.add(a)?.set_as_output()?;
        f.finalize()?;
        let g = c.create_graph()?;
        let x = g.input(array_type(vec![2], INT32))?;
        let y = g.input(array_type(vec![2], INT32))?;
        let r1 = g.call(f.clone(), vec![x.clone(), y.clone()])?;
        let r2 = g.call(f, vec![y, x])?;
        r1.multiply(r2)?.set_as_output()?;
        Ok(g)
    }));
    // user-level Iterate: s' = s*x + x, out = s
    v.push(prog("iterate s*x+x over 3", "Iterate", |c| {
        let f = c.create_graph()?;
        let s = f.input(scalar_type(INT32))?;
        let x = f.input(scalar_type(INT32))?;
        let ns = s.multiply(x.clone())?.add(x)?;
        f.create_tuple(vec![ns, s])?.set_as_output()?;
        f.finalize()?;
        let g = c.create_graph()?;
        let s0 = g.input(scalar_type(INT32))?;
        let xs = g.input(vector_type(3, scalar_type(INT32)))?;
        g.iterate(f, s0, xs)?.set_as_output()?;
        Ok(g)
    }));
    // Iterate bodies that carry an inlining annotation: the depth-optimised modes replace them by logarithmic-depth
    // constructions (one-bit state, small state with K = 3 bits, associative operation); 5 steps each
    v.push(prog("iterate one-bit state a*s+b over 5", "Iterate:one-bit", |c| {
        let bt = array_type(vec![2], BIT);
        let f = c.create_graph()?;
        let s = f.input(bt.clone())?;
        let x = f.input(tuple_type(vec![bt.clone(), bt.clone()]))?;
        let ns = x.tuple_get(0)?.multiply(s.clone())?.add(x.tuple_get(1)?)?;
        f.create_tuple(vec![ns, s])?.set_as_output()?;
        f.add_annotation(GraphAnnotation::OneBitState)?;
        f.finalize()?;
        let g = c.create_graph()?;
        let s0 = g.input(bt.clone())?;
        let xs = g.input(vector_type(5, tuple_type(vec![bt.clone(), bt])))?;
        g.iterate(f, s0, xs)?.set_as_output()?;
        Ok(g)
    }));
    v.push(prog("iterate 3-bit counter (small state) over 5", "Iterate:small-state", |c| {
        let bt = array_type(vec![2], BIT);
        let st = array_type(vec![2, 3], BIT);
        let f = c.create_graph()?;
        let s = f.input(st.clone())?;
        let x = f.input(bt.clone())?;
        let bit = |i: i64| s.get_slice(vec![SliceElement::Ellipsis, SliceElement::SingleIndex(i)]);
        let (b0, b1, b2) = (bit(0)?, bit(1)?, bit(2)?);
        let c0 = b0.multiply(x.clone())?;
        let c1 = b1.multiply(c0.clone())?;
        let wrap = b2.multiply(c1.clone())?;
        let ns = f.stack(vec![b0.add(x)?, b1.add(c0)?, b2.add(c1)?], vec![3])?.permute_axes(vec![1, 0])?;
        f.create_tuple(vec![ns, wrap])?.set_as_output()?;
        f.add_annotation(GraphAnnotation::SmallState)?;
        f.finalize()?;
        let g = c.create_graph()?;
        let s0 = g.input(st)?;
        let xs = g.input(vector_type(5, bt))?;
        g.iterate(f, s0, xs)?.set_as_output()?;
        Ok(g)
    }));
    v.push(prog("iterate associative 2x2 matrix product over 5", "Iterate:associative", |c| {
        let mt = array_type(vec![2, 2], UINT64);
        let f = c.create_graph()?;
        let s = f.input(mt.clone())?;
        let x = f.input(mt.clone())?;
        let ns = s.matmul(x)?;
        f.create_tuple(vec![ns.clone(), ns])?.set_as_output()?;
        f.add_annotation(GraphAnnotation::AssociativeOperation)?;
        f.finalize()?;
        let g = c.create_graph()?;
        let s0 = g.input(mt.clone())?;
        let xs = g.input(vector_type(5, mt))?;
        g.iterate(f, s0, xs)?.set_as_output()?;
        Ok(g)
    }));
    // the annotated iterations: the inlining mode is the dimension that matters; reduced owner / output cross
    for p in v.iter_mut() {
        if p.class.starts_with("Iterate:") {
            p.owners = Some(vec![
                vec![Owner::P(0), Owner::P(1)],
                vec![Owner::P(2), Owner::P(2)],
                vec![Owner::Shared, Owner::P(1)],
                vec![Owner::P(0), Owner::Public],
            ]);
            p.outs = Some(vec![vec![], vec![1], vec![2, 0]]);
        }
    }
    // sort: 3 rows, 2-bit key, payload
    {
        let mut p = prog("sort 3 rows by 2-bit key", "Sort", |c| {
        let g = c.create_graph()?;
            let k = g.input(array_type(vec![3, 2], BIT))?;
            let pay = g.input(array_type(vec![3], INT32))?;
            let t = g.create_named_tuple(vec![("key".to_string(), k), ("v".to_string(), pay)])?;
            g.sort(t, "key".to_string())?.set_as_output()?;
            Ok(g)
        });
        p.inputs = Some(Arc::new(|| {
            let mut out = vec![];
            for m in [0b000000u32, 0b011011, 0b100111, 0b110100, 0b010101, 0b111000] {
                let bits: Vec<u128> = (0..6).map(|i| (m >> i & 1) as u128).collect();
                out.push(vec![vals::arr_value(&bits, &BIT), vals::arr_value(&[1, 2, 3], &INT32)]);
            }
            out
        }));
        v.push(p);
    }
    // apply permutation with a public (constant) permutation
    v.push(prog("apply constant permutation", "ApplyPermutation:public", |c| {
        let g = c.create_graph()?;
        let x = g.input(array_type(vec![3], INT32))?;
        let p = g.constant(array_type(vec![3], UINT64), vals::arr_value(&[2, 0, 1], &UINT64))?;
        x.apply_permutation(p)?.set_as_output()?;
        Ok(g)
    }));
    // joins on small tables
    let std_owners = vec![
        vec![Owner::P(0), Owner::P(1)],
        vec![Owner::P(1), Owner::P(1)],
        vec![Owner::Shared, Owner::P(2)],
    ];
    v.push(join_prog(JoinType::Inner, 2, 2, "Inner", std_owners.clone()));
    v.push(join_prog(JoinType::Left, 2, 2, "Left", std_owners.clone()));
    v.push(join_prog(JoinType::Union, 2, 2, "Union", std_owners.clone()));
    v.push(join_prog(JoinType::Full, 2, 2, "Full", std_owners.clone()));
    if thorough {
        let more = vec![
            vec![Owner::P(0), Owner::P(1)],
            vec![Owner::Public, Owner::P(0)],
            vec![Owner::P(0), Owner::Public],
        ];
        for (jt, name) in [
            (JoinType::Inner, "Inner"),
            (JoinType::Left, "Left"),
            (JoinType::Union, "Union"),
            (JoinType::Full, "Full"),
        ] {
            v.push(join_prog(jt.clone(), 3, 2, name, more.clone()));
        }
    }
    v
}
