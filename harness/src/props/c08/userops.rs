//! User-defined custom operations (defined in the harness, not in the library): the property quantifies over
//! every context whose nodes type-check, and the instantiation machinery does things for user operations that
//! no library operation exercises - an `instantiate()` that names the graphs and nodes it creates (legal: every
//! instantiation gets its own scratch context), several auxiliary graphs, an operation nested in itself with a
//! smaller parameter.
use ciphercore_base::custom_ops::{CustomOperation, CustomOperationBody, Not, Or};
use ciphercore_base::data_types::{array_type, scalar_type, Type, BIT};
use ciphercore_base::data_values::Value;
use ciphercore_base::errors::Result;
use ciphercore_base::graphs::{Context, Graph};
use ciphercore_base::runtime_error;
use serde::{Deserialize, Serialize};

fn bit_array(ts: &[Type], who: &str) -> Result<Type> {
    if ts.len() != 1 || !ts[0].is_array() || ts[0].get_scalar_type() != BIT {
        return Err(runtime_error!("{} expects one bit array", who));
    }
    Ok(ts[0].clone())
}

/// XOR of the slices along the first axis (`flip`: of the negated slices). Iterates a NAMED auxiliary graph
/// with named nodes; uses `Not` inside the auxiliary graph when `flip` is set.
#[derive(Debug, Serialize, Deserialize, Eq, PartialEq, Hash)]
pub struct VFold {
    pub flip: bool,
}

#[typetag::serde]
impl CustomOperationBody for VFold {
    fn instantiate(&self, context: Context, arguments_types: Vec<Type>) -> Result<Graph> {
        let t = bit_array(&arguments_types, "VFold")?;
        let shape = t.get_shape();
        let elem = if shape.len() == 1 { scalar_type(BIT) } else { array_type(shape[1..].to_vec(), BIT) };
        let step = context.create_graph()?;
        step.set_name("vfold.step")?;
        let state = step.input(elem.clone())?;
        state.set_name("state")?;
        let x = step.input(elem.clone())?;
        x.set_name("x")?;
        let x = if self.flip { step.custom_op(CustomOperation::new(Not {}), vec![x])? } else { x };
        let new_state = state.add(x)?;
        new_state.set_name("new_state")?;
        let empty = step.create_tuple(vec![])?;
        step.create_tuple(vec![new_state, empty])?.set_as_output()?;
        step.finalize()?;
        let g = context.create_graph()?;
        let a = g.input(t)?;
        a.set_name("a")?;
        g.iterate(step, g.zeros(elem)?, a.array_to_vector()?)?.tuple_get(0)?.set_as_output()?;
        g.finalize()?;
        Ok(g)
    }
    fn get_name(&self) -> String {
        format!("VFold(flip={})", self.flip)
    }
}

/// x + k on integer arrays/scalars; gives a name to the graph it RETURNS.
#[derive(Debug, Serialize, Deserialize, Eq, PartialEq, Hash)]
pub struct VNamedMain {
    pub k: u64,
}

#[typetag::serde]
impl CustomOperationBody for VNamedMain {
    fn instantiate(&self, context: Context, arguments_types: Vec<Type>) -> Result<Graph> {
        if arguments_types.len() != 1 || !(arguments_types[0].is_array() || arguments_types[0].is_scalar()) {
            return Err(runtime_error!("VNamedMain expects one array or scalar"));
        }
        let t = arguments_types[0].clone();
        let st = t.get_scalar_type();
        if st == BIT {
            return Err(runtime_error!("VNamedMain expects integers"));
        }
        let g = context.create_graph()?;
        g.set_name("vnamed.main")?;
        let x = g.input(t)?;
        x.set_name("x")?;
        let k = g.constant(scalar_type(st), Value::from_scalar(self.k, st)?)?;
        k.set_name("k")?;
        x.add(k)?.set_as_output()?;
        g.finalize()?;
        Ok(g)
    }
    fn get_name(&self) -> String {
        format!("VNamedMain(k={})", self.k)
    }
}

/// Not applied depth+1 times, by nesting the operation in itself with a smaller parameter.
#[derive(Debug, Serialize, Deserialize, Eq, PartialEq, Hash)]
pub struct VNest {
    pub depth: u64,
}

#[typetag::serde]
impl CustomOperationBody for VNest {
    fn instantiate(&self, context: Context, arguments_types: Vec<Type>) -> Result<Graph> {
        let t = bit_array(&arguments_types, "VNest")?;
        let g = context.create_graph()?;
        let x = g.input(t)?;
        let y = g.custom_op(CustomOperation::new(Not {}), vec![x])?;
        let o = if self.depth == 0 {
            y
        } else {
            g.custom_op(CustomOperation::new(VNest { depth: self.depth - 1 }), vec![y])?
        };
        o.set_as_output()?;
        g.finalize()?;
        Ok(g)
    }
    fn get_name(&self) -> String {
        format!("VNest(depth={})", self.depth)
    }
}

/// Not(x) + (x + x) through two auxiliary graphs that carry the same graph-local node names, one of them named;
/// `swap` exchanges which of the two is named (and adds x once more, so that the two parameterisations differ).
#[derive(Debug, Serialize, Deserialize, Eq, PartialEq, Hash)]
pub struct VTwoAux {
    pub swap: bool,
}

#[typetag::serde]
impl CustomOperationBody for VTwoAux {
    fn instantiate(&self, context: Context, arguments_types: Vec<Type>) -> Result<Graph> {
        let t = bit_array(&arguments_types, "VTwoAux")?;
        let h1 = context.create_graph()?;
        if !self.swap {
            h1.set_name("aux")?;
        }
        let x = h1.input(t.clone())?;
        x.set_name("in")?;
        let y = h1.custom_op(CustomOperation::new(Not {}), vec![x])?;
        y.set_name("n")?;
        y.set_as_output()?;
        h1.finalize()?;
        let h2 = context.create_graph()?;
        if self.swap {
            h2.set_name("aux")?;
        }
        let x = h2.input(t.clone())?;
        x.set_name("in")?;
        let y = x.add(x.clone())?;
        y.set_name("n")?;
        y.set_as_output()?;
        h2.finalize()?;
        let g = context.create_graph()?;
        let x = g.input(t)?;
        let a = g.call(h1, vec![x.clone()])?;
        let b = g.call(h2, vec![x.clone()])?;
        let o = a.add(b)?;
        let o = if self.swap { o.add(x)? } else { o };
        o.set_as_output()?;
        g.finalize()?;
        Ok(g)
    }
    fn get_name(&self) -> String {
        format!("VTwoAux(swap={})", self.swap)
    }
}

/// x AND y (`late` = false) or x OR y (`late` = true) on two bit arrays of one type. `instantiate()` always builds
/// BOTH candidate graphs - first the AND graph (plain Multiply), then the OR graph (library operation `Or`, itself
/// a custom operation) - and returns one of them: with `late` = false the returned graph is not the last graph of
/// the scratch context, and a graph created after it contains a custom operation.
#[derive(Debug, Serialize, Deserialize, Eq, PartialEq, Hash)]
pub struct VPick {
    pub late: bool,
}

#[typetag::serde]
impl CustomOperationBody for VPick {
    fn instantiate(&self, context: Context, arguments_types: Vec<Type>) -> Result<Graph> {
        if arguments_types.len() != 2 || arguments_types[0] != arguments_types[1] {
            return Err(runtime_error!("VPick expects two bit arrays of one type"));
        }
        let t = bit_array(&arguments_types[..1], "VPick")?;
        let g_and = context.create_graph()?;
        let x = g_and.input(t.clone())?;
        let y = g_and.input(t.clone())?;
        x.multiply(y)?.set_as_output()?;
        g_and.finalize()?;
        let g_or = context.create_graph()?;
        let x = g_or.input(t.clone())?;
        let y = g_or.input(t)?;
        g_or.custom_op(CustomOperation::new(Or {}), vec![x, y])?.set_as_output()?;
        g_or.finalize()?;
        Ok(if self.late { g_or } else { g_and })
    }
    fn get_name(&self) -> String {
        format!("VPick(late={})", self.late)
    }
}

/// scale * x + shift on integer arrays. Its `Hash` is lawful but partial: it covers `scale` only (equal values hash
/// equally, as the contract demands; unequal values may collide), while `Eq` and the reported name cover both
/// fields. Two parameterisations that differ in `shift` only have one hash - whatever the library keys by the hash
/// alone must not confuse them.
#[derive(Debug, Serialize, Deserialize, Eq, PartialEq)]
pub struct VAffine {
    pub scale: u64,
    pub shift: u64,
}

impl std::hash::Hash for VAffine {
    fn hash<H: std::hash::Hasher>(&self, state: &mut H) {
        self.scale.hash(state);
    }
}

#[typetag::serde]
impl CustomOperationBody for VAffine {
    fn instantiate(&self, context: Context, arguments_types: Vec<Type>) -> Result<Graph> {
        if arguments_types.len() != 1 || !(arguments_types[0].is_array() || arguments_types[0].is_scalar()) {
            return Err(runtime_error!("VAffine expects one array or scalar"));
        }
        let t = arguments_types[0].clone();
        let st = t.get_scalar_type();
        if st == BIT {
            return Err(runtime_error!("VAffine expects integers"));
        }
        let g = context.create_graph()?;
        let x = g.input(t)?;
        let a = g.constant(scalar_type(st), Value::from_scalar(self.scale, st)?)?;
        let b = g.constant(scalar_type(st), Value::from_scalar(self.shift, st)?)?;
        x.multiply(a)?.add(b)?.set_as_output()?;
        g.finalize()?;
        Ok(g)
    }
    fn get_name(&self) -> String {
        format!("VAffine(scale={},shift={})", self.scale, self.shift)
    }
}
