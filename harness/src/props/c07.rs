//! C07 - inlining preserves Call/Iterate semantics in every mode.
//!
//! Enumerated: body kinds (see c07/kinds.rs) x vector lengths x inlining configurations x input
//! families. Every element runs the REAL `inline_operations` and the REAL evaluator.
//! Oracle: the un-inlined context evaluated by the evaluator's native Call/Iterate
//! (evaluators.rs:25-61) on the same inputs, cross-checked against a pure-Rust model of the body
//! where one exists (one-bit, K-bit, order witness); plus structural: no Call/Iterate left where the
//! configuration asked for inlining, the nodes still there where it asked for Noop, one Random node
//! per inlined copy of a body that draws randomness.
mod kinds;

use crate::common::{catch, stable_msg, Report};
use crate::exec::first_line;
use crate::mpcx::eval_plain;
use crate::vals;
use ciphercore_base::data_types::{get_types_vector, Type};
use ciphercore_base::data_values::Value;
use ciphercore_base::graphs::{Context, Operation};
use ciphercore_base::inline::inline_ops::{
    inline_operations, DepthOptimizationLevel, InlineConfig, InlineMode,
};
use kinds::{Built, CfgClass, Flavor, Kind, Out, Shape};
use rayon::prelude::*;
use serde_json::{json, Value as J};
use std::collections::BTreeMap;
use std::sync::atomic::{AtomicBool, Ordering};
use std::time::Instant;

// ------------------------------------------------------------------------------------------------
// configurations

#[derive(Clone, Copy, PartialEq, Eq, Debug)]
enum M {
    Noop,
    Simple,
    DoD,
    DoE,
}
const ALL_M: [M; 4] = [M::Noop, M::Simple, M::DoD, M::DoE];

impl M {
    fn name(self) -> &'static str {
        match self {
            M::Noop => "noop",
            M::Simple => "simple",
            M::DoD => "depth-default",
            M::DoE => "depth-extreme",
        }
    }
    fn parse(s: &str) -> Option<M> {
        ALL_M.iter().copied().find(|m| m.name() == s)
    }
    fn mode(self) -> InlineMode {
        match self {
            M::Noop => InlineMode::Noop,
            M::Simple => InlineMode::Simple,
            M::DoD => InlineMode::DepthOptimized(DepthOptimizationLevel::Default),
            M::DoE => InlineMode::DepthOptimized(DepthOptimizationLevel::Extreme),
        }
    }
    fn depth(self) -> bool {
        matches!(self, M::DoD | M::DoE)
    }
}

#[derive(Clone, Copy, PartialEq, Eq, Debug)]
struct Cfg {
    d: M,
    c: Option<M>,
    i: Option<M>,
}
impl Cfg {
    fn call(&self) -> M {
        self.c.unwrap_or(self.d)
    }
    fn iter(&self) -> M {
        self.i.unwrap_or(self.d)
    }
    fn config(&self) -> InlineConfig {
        InlineConfig {
            default_mode: self.d.mode(),
            override_call_mode: self.c.map(|m| m.mode()),
            override_iterate_mode: self.i.map(|m| m.mode()),
        }
    }
    fn json(&self) -> J {
        json!({"default": self.d.name(), "override_call": self.c.map(|m| m.name()), "override_iterate": self.i.map(|m| m.name())})
    }
    fn name(&self) -> String {
        format!(
            "{}/{}/{}",
            self.d.name(),
            self.c.map(|m| m.name()).unwrap_or("-"),
            self.i.map(|m| m.name()).unwrap_or("-")
        )
    }
    fn from_json(j: &J) -> Option<Cfg> {
        let opt = |k: &str| -> Option<Option<M>> {
            match j.get(k) {
                None | Some(J::Null) => Some(None),
                Some(J::String(s)) => M::parse(s).map(Some),
                _ => None,
            }
        };
        Some(Cfg { d: M::parse(j.get("default")?.as_str()?)?, c: opt("override_call")?, i: opt("override_iterate")? })
    }
}

fn plain(d: M) -> Cfg {
    Cfg { d, c: None, i: None }
}

fn cfgs_of(class: CfgClass) -> Vec<Cfg> {
    let mut v = vec![plain(M::Simple), plain(M::DoD), plain(M::DoE)];
    match class {
        CfgClass::Plain3 => {}
        CfgClass::Plain3Plus => {
            v.push(plain(M::Noop));
            v.push(Cfg { d: M::Noop, c: None, i: Some(M::Simple) });
            v.push(Cfg { d: M::Noop, c: None, i: Some(M::DoD) });
            v.push(Cfg { d: M::Simple, c: None, i: Some(M::DoE) });
            v.push(Cfg { d: M::Simple, c: None, i: Some(M::Noop) });
            v.push(Cfg { d: M::DoE, c: None, i: Some(M::Noop) });
            v.push(Cfg { d: M::DoE, c: Some(M::Noop), i: None });
            v.push(Cfg { d: M::Noop, c: Some(M::DoD), i: Some(M::DoE) });
        }
        CfgClass::All100 => {
            v.clear();
            let opts = [None, Some(M::Noop), Some(M::Simple), Some(M::DoD), Some(M::DoE)];
            for d in ALL_M {
                for c in opts {
                    for i in opts {
                        v.push(Cfg { d, c, i });
                    }
                }
            }
        }
    }
    v
}

// ------------------------------------------------------------------------------------------------
// the enumerated space

const QUICK_LENGTHS: [u64; 15] = [0, 1, 2, 3, 4, 7, 8, 9, 15, 16, 17, 31, 32, 33, 40];

fn lengths(thorough: bool) -> Vec<u64> {
    if thorough {
        (0..=40).collect()
    } else {
        QUICK_LENGTHS.to_vec()
    }
}

fn all_kinds(thorough: bool) -> Vec<Kind> {
    let mut v = vec![];
    let outs = [Out::Empty, Out::Pre];
    for arr in [false, true] {
        v.push(Kind::Empty { arr });
    }
    for arr in [false, true] {
        v.push(Kind::General { arr });
    }
    for arr in [false, true] {
        for out in outs {
            v.push(Kind::AssocAdd { arr, out });
        }
    }
    for signed in [false, true] {
        for out in outs {
            v.push(Kind::AssocMat { signed, out });
        }
    }
    for out in outs {
        v.push(Kind::Witness { out });
    }
    for shape in [Shape::Flat, Shape::Lanes, Shape::Grid] {
        for out in outs {
            v.push(Kind::OneBit { shape, out });
        }
    }
    for k in 1..=4u64 {
        for flavor in [Flavor::Shift, Flavor::Affine, Flavor::Counter] {
            for shape in [Shape::Lanes, Shape::Flat, Shape::Grid] {
                for out in outs {
                    let keep = if thorough {
                        // the grid shape adds only one more batch dimension: one flavour per K;
                        // K = 4 unbatched: one flavour
                        (shape != Shape::Grid || flavor == Flavor::Counter)
                            && (k < 4 || shape != Shape::Flat || flavor == Flavor::Counter)
                    } else if k == 4 {
                        (shape == Shape::Lanes && out == Out::Pre)
                            || (flavor == Flavor::Counter && shape != Shape::Grid && (shape == Shape::Lanes || out == Out::Pre))
                    } else {
                        // quick: per K every flavour batched with exposed pre-states, and one
                        // flavour in the other shapes / with empty output
                        (shape == Shape::Lanes && out == Out::Pre)
                            || (flavor == Flavor::Counter && (shape != Shape::Grid || out == Out::Pre))
                    };
                    if keep {
                        v.push(Kind::Small { k, flavor, shape, out });
                    }
                }
            }
        }
    }
    v.push(Kind::RandEmpty);
    v.push(Kind::RandGeneral);
    v.push(Kind::RandCall);
    v.push(Kind::RandNested);
    for which in 1..=5u8 {
        for assoc in [false, true] {
            v.push(Kind::Nested { which, assoc });
        }
    }
    for which in 0..5u8 {
        v.push(Kind::Probe { which });
    }
    v
}

/// lengths at which a kind is run (cost control: one lane-step of the small-state strategy costs
/// about 4^K times the one-bit strategy)
fn runs_at(kind: &Kind, n: u64, thorough: bool) -> bool {
    match kind {
        Kind::RandCall => n == 0, // no vector involved
        Kind::Small { k, flavor, shape, out } => {
            let primary = *flavor == Flavor::Counter && *shape == Shape::Lanes && *out == Out::Pre;
            let medium = *shape == Shape::Lanes && *out == Out::Pre;
            let long = [31u64, 32, 33, 40].contains(&n);
            match (k, thorough) {
                (4, false) => {
                    if primary {
                        [0u64, 1, 2, 3, 4, 8, 16].contains(&n)
                    } else {
                        n == 2 || n == 4
                    }
                }
                (4, true) => {
                    if primary {
                        n <= 17 || n == 32
                    } else {
                        n <= 9 || n == 16
                    }
                }
                (3, false) => primary || medium || n <= 17 || n == 32,
                (3, true) => primary || medium || n <= 20 || long,
                _ => true,
            }
        }
        _ => true,
    }
}

// ------------------------------------------------------------------------------------------------
// per-unit result (merged in enumeration order by the main thread)

#[derive(Default)]
struct Res {
    counts: BTreeMap<String, u64>,
    distinct: Vec<String>,
    samples: Vec<J>,
    viols: Vec<(String, String, J)>,
    machinery: Vec<String>,
    secs: f64,
    label: String,
}
impl Res {
    fn count(&mut self, k: &str, n: u64) {
        *self.counts.entry(k.to_string()).or_insert(0) += n;
    }
}

fn flat(v: &Value, t: &Type, out: &mut Vec<u128>) -> bool {
    match t {
        Type::Scalar(_) | Type::Array(_, _) => match vals::arr_elems(v, t) {
            Some(e) => {
                out.extend(e);
                true
            }
            None => false,
        },
        _ => {
            let ts = match get_types_vector(t.clone()) {
                Ok(ts) => ts,
                Err(_) => return false,
            };
            let vs = match v.to_vector() {
                Ok(vs) => vs,
                Err(_) => return false,
            };
            vs.len() == ts.len() && vs.iter().zip(ts.iter()).all(|(x, tt)| flat(x, tt, out))
        }
    }
}

fn flat_of(v: &Value, t: &Type) -> Result<Vec<u128>, String> {
    let mut o = vec![];
    if flat(v, t, &mut o) {
        Ok(o)
    } else {
        Err("value does not have the layout of its type".into())
    }
}

struct OpCounts {
    calls: u64,
    iterates: u64,
    randoms: u64,
    main_calls: u64,
    main_iterates: u64,
    nodes: u64,
}

fn op_counts(ctx: &Context) -> OpCounts {
    let mut o = OpCounts { calls: 0, iterates: 0, randoms: 0, main_calls: 0, main_iterates: 0, nodes: 0 };
    let main = ctx.get_main_graph().unwrap();
    for g in ctx.get_graphs() {
        let is_main = g == main;
        for nd in g.get_nodes() {
            o.nodes += 1;
            match nd.get_operation() {
                Operation::Call => {
                    o.calls += 1;
                    if is_main {
                        o.main_calls += 1;
                    }
                }
                Operation::Iterate => {
                    o.iterates += 1;
                    if is_main {
                        o.main_iterates += 1;
                    }
                }
                Operation::Random(_) => o.randoms += 1,
                _ => {}
            }
        }
    }
    o
}

fn first_diff(a: &[u128], b: &[u128]) -> J {
    if a.len() != b.len() {
        return json!({"expected_len": a.len(), "observed_len": b.len()});
    }
    for i in 0..a.len() {
        if a[i] != b[i] {
            return json!({"flat_index": i, "expected": a[i].to_string(), "observed": b[i].to_string(), "flat_len": a.len()});
        }
    }
    J::Null
}

fn show_short(v: &[u128]) -> J {
    if v.len() <= 48 {
        J::Array(v.iter().map(|x| json!(x.to_string())).collect())
    } else {
        json!(format!("<{} elements>", v.len()))
    }
}

struct Only {
    /// None: all configurations of the kind's class
    cfg: Option<Cfg>,
    /// input sets [from, to)
    inputs: Option<(usize, usize)>,
    verbose: bool,
    /// later sub-units of a (kind, n): only the plain depth-optimised configurations
    depth_only: bool,
}

fn run_unit(kind: &Kind, n: u64, thorough: bool, only: Option<&Only>) -> Res {
    let t0 = Instant::now();
    let mut res = Res { label: format!("{}@{}", kind.name(), n), ..Default::default() };
    let verbose = only.map(|o| o.verbose).unwrap_or(false);
    let built: Built = match catch(|| kind.build(n, thorough)) {
        Ok(Ok(b)) => b,
        Ok(Err(e)) => {
            res.machinery.push(format!("cannot build {} n={}: {}", kind.name(), n, first_line(&e.to_string())));
            return res;
        }
        Err(p) => {
            res.machinery.push(format!("cannot build {} n={}: panic {}", kind.name(), n, p));
            return res;
        }
    };
    res.count("contexts_built", 1);
    if only.map(|o| !o.depth_only).unwrap_or(true) {
        res.count("lanes", built.lanes);
    }
    let src_counts = op_counts(&built.ctx);
    let idxs: Vec<usize> = match only.and_then(|o| o.inputs) {
        Some((a, b)) => (a..std::cmp::min(b, built.inputs.len())).collect(),
        None => (0..built.inputs.len()).collect(),
    };
    if idxs.is_empty() {
        res.machinery.push(format!("{}: empty input range", res.label));
        return res;
    }
    let case_json = |cfg: &Cfg, input: Option<usize>, more: J| -> J {
        let ctx_txt = serde_json::to_string(&built.ctx).unwrap_or_default();
        json!({
            "kind": kind.name(), "n": n, "cfg": cfg.json(), "input_index": input,
            "thorough_families": thorough, "detail": more,
            "source_context": if ctx_txt.len() < 60_000 { json!(ctx_txt) } else { json!("<omitted: rebuilt from kind and n>") },
        })
    };
    // ---- the oracle: native Call/Iterate evaluation of the source context
    let mut native: BTreeMap<usize, Vec<u128>> = BTreeMap::new();
    let mut in_flat: BTreeMap<usize, Vec<u128>> = BTreeMap::new();
    for &ix in idxs.iter() {
        if ix >= built.inputs.len() {
            res.machinery.push(format!("{}: input index {} out of range", res.label, ix));
            return res;
        }
        let v = match eval_plain(&built.ctx, &built.inputs[ix], 1) {
            Ok(v) => v,
            Err(e) => {
                res.machinery.push(format!("{}: native evaluation of the source context failed: {}", res.label, e));
                return res;
            }
        };
        let f = match flat_of(&v, &built.out_type) {
            Ok(f) => f,
            Err(e) => {
                res.machinery.push(format!("{}: native result: {}", res.label, e));
                return res;
            }
        };
        res.count("native_evaluations", 1);
        if let Some(m) = &built.models[ix] {
            res.count("model_crosschecks", 1);
            if *m != f {
                res.viols.push((
                    format!("C07:native-vs-model:{}", kind.class()),
                    format!("native Iterate evaluation of a {} body differs from the pure-Rust model of the body", kind.class()),
                    case_json(&plain(M::Noop), Some(ix), json!({"first_difference": first_diff(m, &f)})),
                ));
            } else if matches!(kind, Kind::Witness { .. }) && ix == 0 {
                res.count("witness_decisive_native_ok", 1);
            }
        }
        if kind.is_random() {
            let mut fi = vec![];
            for (iv, it) in built.inputs[ix].iter().zip(built.in_types.iter()) {
                flat(iv, it, &mut fi);
            }
            if let Err(e) = kinds::random_relations(kind, n, &fi, &f) {
                res.viols.push((
                    "C07:native-random-relation".into(),
                    format!("native evaluation of a random body: {}", e),
                    case_json(&plain(M::Noop), Some(ix), json!({})),
                ));
            }
            in_flat.insert(ix, fi);
        }
        if verbose {
            for (j, (iv, it)) in built.inputs[ix].iter().zip(built.in_types.iter()).enumerate() {
                let mut fi = vec![];
                flat(iv, it, &mut fi);
                println!("input set {} argument {} (flattened): {}", ix, j, show_short(&fi));
            }
            println!("expected = native Call/Iterate evaluation (oracle), input set {}: {}", ix, show_short(&f));
        }
        native.insert(ix, f);
    }
    // ---- every configuration
    let mut cfgs: Vec<Cfg> = match only.and_then(|o| o.cfg) {
        Some(c) => vec![c],
        None => cfgs_of(kind.cfg_class()),
    };
    if only.map(|o| o.depth_only).unwrap_or(false) {
        cfgs.retain(|c| c.c.is_none() && c.i.is_none() && c.d.depth());
    }
    let nested = matches!(kind.cfg_class(), CfgClass::All100);
    let mut simple_nodes: Option<u64> = None;
    for cfg in cfgs.iter() {
        let mode_tag = if nested {
            // coarse on purpose: one defect should not produce one signature per override combination
            format!(
                "call={},iterate={}",
                if cfg.call() == M::Noop { "noop" } else { "inlined" },
                cfg.iter().name()
            )
        } else {
            cfg.iter().name().to_string()
        };
        let sig = |failure: &str| format!("C07:{}:{}:{}", failure, kind.class(), mode_tag);
        let src = built.ctx.clone();
        let config = cfg.config();
        let t_inl = Instant::now();
        let inl = catch(move || inline_operations(&src, config));
        let inl_s = t_inl.elapsed().as_secs_f64();
        res.count("inline_calls", 1);
        let out_ctx = match inl {
            Ok(Ok(m)) => m.get_context(),
            Ok(Err(e)) => {
                let msg = first_line(&e.to_string());
                if kind.in_contract() {
                    res.viols.push((
                        format!("{}:{}", sig("inline-error"), stable_msg(&msg)),
                        format!("inline_operations returns Err for a {} body that satisfies the inliner's contract (n={}, {}): {}", kind.class(), n, cfg.name(), msg),
                        case_json(cfg, None, json!({"error": msg})),
                    ));
                } else {
                    res.count(&format!("probe:{}:{}:err", kind.name(), cfg.iter().name()), 1);
                    res.count("out_of_contract_errors", 1);
                }
                if verbose {
                    println!("inline_operations [{}]: Err {}", cfg.name(), msg);
                }
                continue;
            }
            Err(p) => {
                if kind.in_contract() {
                    res.viols.push((
                        format!("{}:{}", sig("inline-panic"), stable_msg(&p)),
                        format!("inline_operations panics for a {} body (n={}, {}): {}", kind.class(), n, cfg.name(), p),
                        case_json(cfg, None, json!({"panic": p})),
                    ));
                } else {
                    res.count(&format!("probe:{}:{}:panic", kind.name(), cfg.iter().name()), 1);
                }
                if verbose {
                    println!("inline_operations [{}]: panic {}", cfg.name(), p);
                }
                continue;
            }
        };
        if !kind.in_contract() {
            res.count(&format!("probe:{}:{}:ok", kind.name(), cfg.iter().name()), 1);
            if cfg.iter().depth() && n > 0 {
                // outside the contract: the result may legitimately be wrong; not judged
                continue;
            }
        }
        // ---- structure
        let oc = op_counts(&out_ctx);
        res.count("structural_checks", 1);
        if cfg.iter() != M::Noop && oc.iterates != 0 {
            res.viols.push((
                sig("leftover-iterate"),
                format!("{} Iterate node(s) left although the configuration asks for inlining them ({}, n={})", oc.iterates, cfg.name(), n),
                case_json(cfg, None, json!({"iterate_nodes": oc.iterates})),
            ));
        }
        if cfg.call() != M::Noop && oc.calls != 0 {
            res.viols.push((
                sig("leftover-call"),
                format!("{} Call node(s) left although the configuration asks for inlining them ({}, n={})", oc.calls, cfg.name(), n),
                case_json(cfg, None, json!({"call_nodes": oc.calls})),
            ));
        }
        if cfg.iter() == M::Noop && src_counts.main_iterates > 0 {
            res.count("noop_iterate_kept_checks", 1);
            if oc.main_iterates < built.main_iters {
                res.viols.push((
                    sig("noop-iterate-removed"),
                    format!("Iterate nodes of the main graph disappeared under override Noop ({}, n={})", cfg.name(), n),
                    case_json(cfg, None, json!({"source": built.main_iters, "inlined": oc.main_iterates})),
                ));
            }
        }
        if cfg.call() == M::Noop && src_counts.main_calls > 0 {
            res.count("noop_call_kept_checks", 1);
            if oc.main_calls < built.main_calls {
                res.viols.push((
                    sig("noop-call-removed"),
                    format!("Call nodes of the main graph disappeared under override Noop ({}, n={})", cfg.name(), n),
                    case_json(cfg, None, json!({"source": built.main_calls, "inlined": oc.main_calls})),
                ));
            }
        }
        let fully_inlined = cfg.iter() != M::Noop && cfg.call() != M::Noop;
        if let (Some(exp), true) = (kind.expected_random_nodes(n), fully_inlined) {
            res.count("random_node_count_checks", 1);
            if n > 1 || matches!(kind, Kind::RandCall) {
                res.count("random_multi_copy_checks", 1);
            }
            if oc.randoms != exp {
                res.viols.push((
                    sig("random-node-count"),
                    format!("inlined context has {} Random nodes for {} inlined copies of a body that draws randomness ({}, n={})", oc.randoms, exp, cfg.name(), n),
                    case_json(cfg, None, json!({"random_nodes": oc.randoms, "expected": exp})),
                ));
            }
        }
        if *cfg == plain(M::Simple) {
            simple_nodes = Some(oc.nodes);
        } else if cfg.c.is_none() && cfg.i.is_none() && cfg.d.depth() && n >= 2 {
            if let Some(sn) = simple_nodes {
                if sn != oc.nodes {
                    res.count(&format!("depth_strategy_taken:{}", kind.strategy()), 1);
                }
            }
        }
        if cfg.iter().depth() && n >= 1 && !nested {
            let alg = match (kind.strategy(), cfg.iter()) {
                ("associative", _) | ("one-bit", _) | ("small-state", _) => {
                    let empty_out = matches!(
                        kind,
                        Kind::AssocAdd { out: Out::Empty, .. }
                            | Kind::AssocMat { out: Out::Empty, .. }
                            | Kind::Witness { out: Out::Empty }
                            | Kind::OneBit { out: Out::Empty, .. }
                            | Kind::Small { out: Out::Empty, .. }
                    );
                    if empty_out {
                        "log_depth_sum"
                    } else if cfg.iter() == M::DoE {
                        "binary_ascent"
                    } else if n < 16 {
                        "sqrt_trick"
                    } else {
                        "segment_tree"
                    }
                }
                _ => "",
            };
            if !alg.is_empty() {
                res.count(&format!("prefix_algorithm:{}", alg), 1);
            }
        }
        // ---- values
        let mut eval_s = 0.0;
        for &ix in idxs.iter() {
            let t_ev = Instant::now();
            let got = eval_plain(&out_ctx, &built.inputs[ix], 2 + ix as u64);
            eval_s += t_ev.elapsed().as_secs_f64();
            res.count("evaluations", 1);
            let nontrivial = n >= 1 && (cfg.iter() != M::Noop || cfg.call() != M::Noop);
            if nontrivial {
                res.distinct.push(format!("{}|{}|{}|{}", kind.name(), n, cfg.name(), ix));
            }
            let exp = &native[&ix];
            let got_flat = match got {
                Ok(v) => flat_of(&v, &built.out_type),
                Err(e) => Err(e),
            };
            let gf = match got_flat {
                Ok(gf) => gf,
                Err(e) => {
                    res.viols.push((
                        format!("{}:{}", sig("eval-error"), stable_msg(&e)),
                        format!("the inlined context cannot be evaluated ({} body, n={}, {}): {}", kind.class(), n, cfg.name(), e),
                        case_json(cfg, Some(ix), json!({"error": e})),
                    ));
                    if verbose {
                        println!("inlined [{}] input {}: evaluation failed: {}", cfg.name(), ix, e);
                    }
                    continue;
                }
            };
            if verbose {
                println!("observed = inlined context [{}], input set {}: {}", cfg.name(), ix, show_short(&gf));
            }
            if kind.is_random() {
                res.count("random_relation_checks", 1);
                if let Err(e) = kinds::random_relations(kind, n, &in_flat[&ix], &gf) {
                    res.viols.push((
                        sig("random-relation"),
                        format!("inlined random body ({}, n={}): {}", cfg.name(), n, e),
                        case_json(cfg, Some(ix), json!({"observed": show_short(&gf)})),
                    ));
                }
                continue;
            }
            if gf != *exp {
                res.viols.push((
                    sig("value-mismatch"),
                    format!(
                        "inlined context ({}) computes a different result than native Call/Iterate evaluation for a {} body at vector length {}",
                        cfg.name(), kind.class(), n
                    ),
                    case_json(cfg, Some(ix), json!({
                        "first_difference": first_diff(exp, &gf),
                        "expected": show_short(exp), "observed": show_short(&gf),
                    })),
                ));
            } else {
                if matches!(kind, Kind::Witness { .. }) && ix == 0 && cfg.iter().depth() {
                    res.count("witness_decisive_cases", 1);
                }
                if cfg.iter() == M::Noop || cfg.call() == M::Noop {
                    res.count("noop_override_value_checks", 1);
                }
            }
        }
        if std::env::var("VERIF_C07_TIMING").is_ok() {
            eprintln!(
                "timing {} n={} cfg={} sets={} nodes={} inline_s={:.3} eval_s={:.3}",
                kind.name(), n, cfg.name(), idxs.len(), oc.nodes, inl_s, eval_s
            );
        }
        if res.samples.len() < 2 && n >= 2 && cfg.iter().depth() {
            res.samples.push(json!({
                "kind": kind.name(), "n": n, "cfg": cfg.name(), "input_sets": idxs.len(),
                "lanes": built.lanes, "inlined_nodes": oc.nodes, "source_nodes": src_counts.nodes,
                "native_result_input0": show_short(&native[&idxs[0]]),
            }));
        }
    }
    res.secs = t0.elapsed().as_secs_f64();
    res
}

// ------------------------------------------------------------------------------------------------

pub fn run(r: &Report) -> i32 {
    let thorough = r.tier.thorough();
    let filter = std::env::var("VERIF_C07_ONLY").ok();
    let mut units: Vec<(Kind, u64, Option<(usize, usize)>)> = vec![];
    let kinds = all_kinds(thorough);
    for n in lengths(thorough) {
        for k in kinds.iter() {
            if !runs_at(k, n, thorough) {
                continue;
            }
            if let Some(f) = &filter {
                if !f.split(",").any(|p| k.name().starts_with(p)) {
                    continue;
                }
            }
            let sets = k.n_input_sets(n, thorough);
            let chunk = k.sets_per_unit();
            if sets > chunk {
                let mut a = 0;
                while a < sets {
                    units.push((k.clone(), n, Some((a, std::cmp::min(a + chunk, sets)))));
                    a += chunk;
                }
            } else {
                units.push((k.clone(), n, None));
            }
        }
    }
    // wall-clock guard (never a verdict: a cut enumeration is reported as a cap)
    let budget_s = if thorough { 13.0 * 60.0 } else { 55.0 };
    let start = Instant::now();
    let cut = AtomicBool::new(false);
    // heavy units first within the pool does not change results: they are merged in enumeration order
    let mut order: Vec<usize> = (0..units.len()).collect();
    let weight = |k: &Kind| -> u64 {
        match k {
            Kind::Small { k, .. } => 1u64 << (2 * k),
            _ => 1,
        }
    };
    order.sort_by_key(|i| std::cmp::Reverse(units[*i].1 * weight(&units[*i].0)));
    let mut results: Vec<(usize, Option<Res>)> = order
        .par_iter()
        .map(|&i| {
            if start.elapsed().as_secs_f64() > budget_s {
                cut.store(true, Ordering::Relaxed);
                return (i, None);
            }
            let later = units[i].2.map(|r| r.0 > 0).unwrap_or(false);
            let only = Only { cfg: None, inputs: units[i].2, verbose: false, depth_only: later };
            (i, Some(run_unit(&units[i].0, units[i].1, thorough, Some(&only))))
        })
        .collect();
    results.sort_by_key(|x| x.0);
    let mut skipped = 0u64;
    let mut machinery: Vec<String> = vec![];
    let mut slow: Vec<(f64, String)> = vec![];
    for (_, res) in results.into_iter() {
        let res = match res {
            Some(x) => x,
            None => {
                skipped += 1;
                continue;
            }
        };
        r.count("units", 1);
        for (k, v) in res.counts.iter() {
            r.count(k, *v);
        }
        for d in res.distinct.iter() {
            r.distinct_str(d);
        }
        for s in res.samples.into_iter() {
            r.sample(s);
        }
        for (sig, what, case) in res.viols.into_iter() {
            r.violation(&sig, &what, case);
        }
        machinery.extend(res.machinery);
        slow.push((res.secs, res.label));
    }
    slow.sort_by(|a, b| b.0.partial_cmp(&a.0).unwrap());
    if std::env::var("VERIF_C07_TIMING").is_ok() {
        for (s, l) in slow.iter().take(8) {
            eprintln!("slow unit {} {:.1}s", l, s);
        }
    }
    r.extra("lengths", json!(lengths(thorough)));
    r.extra("kinds", json!(kinds.iter().map(|k| k.name()).collect::<Vec<_>>()));
    r.extra(
        "out_of_contract_probes",
        json!((0..5u8).map(|w| format!("probe{}: {}", w, kinds::probe_what(w))).collect::<Vec<_>>()),
    );
    if cut.load(Ordering::Relaxed) {
        r.cap_hit(&format!("wall-clock budget: {} units not run", skipped));
    }
    if !machinery.is_empty() {
        for m in machinery.iter().take(5) {
            println!("MACHINERY-ERROR property=C07 {}", m);
        }
        return 2;
    }
    let mut keys = vec!["evaluations"];
    if filter.is_none() {
        keys.extend_from_slice(&["structural_checks", "model_crosschecks",
            "witness_decisive_cases",
            "depth_strategy_taken:associative",
            "depth_strategy_taken:one-bit",
            "depth_strategy_taken:small-state",
            "prefix_algorithm:sqrt_trick",
            "prefix_algorithm:segment_tree",
            "prefix_algorithm:binary_ascent",
            "prefix_algorithm:log_depth_sum",
            "random_multi_copy_checks",
            "random_relation_checks",
            "noop_iterate_kept_checks",
            "noop_call_kept_checks",
            "noop_override_value_checks",
            "out_of_contract_errors",
        ]);
    }
    r.finish(
        "exploration",
        "unit = (body kind, vector length); every unit x every inlining configuration of its class x every input set of its family; distinct non-trivial = (kind, n >= 1, configuration that inlines something, input set)",
        true,
        &[
            "oracle is the evaluator's native Call/Iterate (evaluators.rs:25-61), cross-checked against a pure-Rust model for the one-bit, K-bit and order-witness bodies",
            "bodies outside the stated contracts of the associative / one-bit / small-state strategies (probe0..4) are run but not judged in depth-optimised modes",
            "input families: one-bit n <= 6 all 4^n function sequences x both initial states, above: identity, one-point, dense and two-point families (all a,b in the batched shape in the thorough tier and for n <= 17 in the quick tier, boundary positions otherwise); K-bit: all sequences x all states for n <= 5/4/3/2 (K = 1/2/3/4), above: priority-ordered families cut at a per-(K, variant, n) lane budget (kinds.rs lane_cap) - a fixed, documented subset, not a sample",
            "K = 4 runs at lengths {0,1,2,3,4,8,16} (quick) / 0..=17 and 32 (thorough) for the primary variant and at fewer lengths for the others (runs_at); K = 3 secondary variants skip some lengths above 17/20: one K = 4 lane-step costs ~2.5 ms per evaluation",
            "unbatched scalar / [K] states use boundary-position families; position-exhaustive families are carried by the batched shapes [m], [m,K]",
            "arithmetic bodies (empty, general, associative add / matrix product): 6 boundary-alphabet input sets each; the order-witness monoid's single decisive input plus one arbitrary input",
            "Simple mode and the override configurations are run on the first sub-unit (first input sets) of a (kind, n) only; the depth-optimised modes on all input sets",
        ],
        &keys,
    )
}

pub fn replay(_r: &Report, rec: &J) -> i32 {
    let case = &rec["case"];
    let name = case["kind"].as_str().unwrap_or("");
    let n = case["n"].as_u64().unwrap_or(0);
    let thorough = case["thorough_families"].as_bool().unwrap_or(false);
    let cfg = match Cfg::from_json(&case["cfg"]) {
        Some(c) => c,
        None => {
            println!("MACHINERY-ERROR property=C07 replay: bad cfg");
            return 2;
        }
    };
    let kind = match all_kinds(true).into_iter().find(|k| k.name() == name) {
        Some(k) => k,
        None => {
            println!("MACHINERY-ERROR property=C07 replay: unknown kind {}", name);
            return 2;
        }
    };
    let input = case["input_index"].as_u64().map(|x| x as usize);
    let want = rec["signature"].as_str().unwrap_or("");
    println!("replay C07: kind={} n={} cfg={} input_index={:?}", name, n, cfg.name(), input);
    let res = run_unit(
        &kind,
        n,
        thorough,
        Some(&Only { cfg: Some(cfg), inputs: input.map(|i| (i, i + 1)), verbose: true, depth_only: false }),
    );
    for m in res.machinery.iter() {
        println!("MACHINERY-ERROR property=C07 {}", m);
    }
    if !res.machinery.is_empty() {
        return 2;
    }
    let mut hit = false;
    for (sig, what, case) in res.viols.iter() {
        println!("observed violation: {} - {}", sig, what);
        println!("detail: {}", case["detail"]);
        if sig == want || want.is_empty() {
            hit = true;
        }
    }
    if hit {
        println!("REPRODUCED property=C07 signature={}", want);
        1
    } else {
        println!("NOT-REPRODUCED property=C07 signature={}", want);
        0
    }
}
