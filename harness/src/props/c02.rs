//! C02 - each party can run the protocol from its own data and the messages it receives.
//! Three-party exploration of the real compiled graph under E1 (see exec.rs for the execution rules).
use super::c01::{self, Budget, Which};
use crate::common::Report;
use serde_json::Value as J;

pub fn run(r: &Report) -> i32 {
    let thorough = r.tier.thorough();
    // both tiers execute the program space of C01's quick tier (three-party runs cost about 3x a global run and are
    // crossed with the junk alphabet and two seed assignments); the thorough tier keeps every owner vector and output
    // list of that space and uses more inputs and the full junk alphabet
    let mut progs = c01::generated_programs_tier(r, false);
    
    // quick: depth 1 + planner-relevant depth 2/3 (reduced owner / output sets) + curated families
    if !thorough {
        for p in progs.iter_mut() {
            if p.outs.is_some() && p.outs != Some(crate::mpcx::output_lists_unsorted()) {
                if let Some(o) = p.owners.as_mut() {
                    o.truncate(3);
                }
                p.outs = Some(vec![vec![], vec![1]]);
            }
        }
    }
    progs.extend(super::curated::programs(thorough));
    r.extra("program_classes", c01::class_histogram(&progs));
    let b = Budget {
        max_inputs: if thorough { 4 } else { 2 },
        extra_seeds: 0,
        tapes: vec!["prf-zero"],
        junk: if thorough { vec!["zeros", "ones", "seeded"] } else { vec!["zeros", "seeded"] },
        seed_sets: 2,
    };
    c01::run_engine(r, Which::ThreeParty, progs, &b);
    r.finish(
        "model_checking",
        "three-party execution of the real compiled graph: every node evaluated by each party's own SimpleEvaluator on that party's values; non-owned inputs and non-held share slots filled from the junk alphabet {zeros, ones, seed-derived bytes}; values cross parties only at Send-annotated nodes; failures are poison. Space: C01 program space (depth 1, planner-relevant depth 2, curated) x owner vectors x 8 output subsets x inline modes x inputs x junk alphabet x 2 assignments of the three parties' seeds (+ PRF-all-zero tape). states = three-party executions, transitions = party steps (node evaluations by one party). Oracle: every output party holds exactly the plaintext result; for a shared output party i holds shares i and i+1, neighbours agree, own shares reconstruct. distinct = distinct compiled contexts",
        true,
        &[
            "execution model = runtime's documented rules (reference/runtime.md): all parties evaluate all nodes, junk for data they do not own, Send(s,r) copies s's value to r",
            "party schedules are not explored: the compiled graph is a dataflow program, results depend on inputs and tapes only",
            "conformance of the executor: global walker == Evaluator::evaluate_graph (same seed); three-party walker with full knowledge and equal seeds == global walker at every node",
        ],
        &["evaluations", "programs", "states", "transitions", "messages_delivered", "traces_validated_against_impl"],
    )
}

pub fn replay(r: &Report, rec: &J) -> i32 {
    c01::replay_case(r, &rec["case"])
}
