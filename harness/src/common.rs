//! Shared plumbing: CLI context, counters, evidence writer, violation reporting,
//! known-findings matching, panic capture.
use serde_json::{json, Map, Value as J};
use std::cell::RefCell;
use std::collections::{BTreeMap, BTreeSet, HashSet};
use std::panic::{catch_unwind, AssertUnwindSafe};
use std::sync::Mutex;
use std::time::Instant;

#[derive(Clone, Copy, PartialEq, Eq, Debug)]
pub enum Tier {
    Quick,
    Thorough,
}

impl Tier {
    pub fn name(&self) -> &'static str {
        match self {
            Tier::Quick => "quick",
            Tier::Thorough => "thorough",
        }
    }
    pub fn thorough(&self) -> bool {
        *self == Tier::Thorough
    }
}

#[derive(Clone, Debug)]
pub struct Violation {
    /// stable key of *what* fails (not of the particular input)
    pub signature: String,
    pub what: String,
    /// everything needed to re-execute the case
    pub case: J,
}

pub struct Report {
    pub id: String,
    pub tier: Tier,
    pub seed: u64,
    start: Instant,
    counters: Mutex<BTreeMap<String, u64>>,
    distinct: Mutex<HashSet<u64>>,
    samples: Mutex<Vec<J>>,
    violations: Mutex<Vec<Violation>>,
    extra: Mutex<Map<String, J>>,
    caps: Mutex<Vec<String>>,
    pub max_samples: usize,
}

pub fn verif_dir() -> String {
    std::env::var("VERIF_DIR").unwrap_or_else(|_| "/verif".to_string())
}

impl Report {
    pub fn new(id: &str, tier: Tier, seed: u64) -> Report {
        Report {
            id: id.to_string(),
            tier,
            seed,
            start: Instant::now(),
            counters: Mutex::new(BTreeMap::new()),
            distinct: Mutex::new(HashSet::new()),
            samples: Mutex::new(vec![]),
            violations: Mutex::new(vec![]),
            extra: Mutex::new(Map::new()),
            caps: Mutex::new(vec![]),
            max_samples: 6,
        }
    }
    pub fn elapsed(&self) -> f64 {
        self.start.elapsed().as_secs_f64()
    }
    pub fn count(&self, key: &str, n: u64) {
        *self.counters.lock().unwrap().entry(key.to_string()).or_insert(0) += n;
    }
    pub fn get(&self, key: &str) -> u64 {
        *self.counters.lock().unwrap().get(key).unwrap_or(&0)
    }
    /// registers a distinct non-trivial case by its hash
    pub fn distinct(&self, h: u64) {
        self.distinct.lock().unwrap().insert(h);
    }
    pub fn distinct_str(&self, s: &str) {
        self.distinct(hash_str(s));
    }
    pub fn n_distinct(&self) -> u64 {
        self.distinct.lock().unwrap().len() as u64
    }
    pub fn sample(&self, j: J) {
        let mut s = self.samples.lock().unwrap();
        if s.len() < self.max_samples {
            s.push(j);
        }
    }
    pub fn want_sample(&self) -> bool {
        self.samples.lock().unwrap().len() < self.max_samples
    }
    pub fn extra(&self, key: &str, v: J) {
        self.extra.lock().unwrap().insert(key.to_string(), v);
    }
    pub fn cap_hit(&self, what: &str) {
        self.caps.lock().unwrap().push(what.to_string());
    }
    pub fn violation(&self, signature: &str, what: &str, case: J) {
        let mut v = self.violations.lock().unwrap();
        // keep the first (smallest, as enumeration is simplest-first) case per signature, count the rest
        self.count("violating_cases", 1);
        if v.iter().any(|x| x.signature == signature) {
            return;
        }
        v.push(Violation {
            signature: signature.to_string(),
            what: what.to_string(),
            case,
        });
    }
    pub fn n_violation_signatures(&self) -> usize {
        self.violations.lock().unwrap().len()
    }

    /// Writes evidence, matches violations against known findings, prints verdict lines,
    /// returns the process exit code.
    pub fn finish(
        &self,
        level: &str,
        rule: &str,
        exhaustive: bool,
        assumptions: &[&str],
        nonvacuity_keys: &[&str],
    ) -> i32 {
        let dir = verif_dir();
        let known = load_known(&dir, &self.id);
        let viols = self.violations.lock().unwrap().clone();
        let mut new_viols = vec![];
        let mut known_hits = BTreeSet::new();
        for v in viols.iter() {
            if let Some(k) = known.iter().find(|k| k.0 == v.signature) {
                known_hits.insert((k.0.clone(), k.1.clone()));
            } else {
                new_viols.push(v.clone());
            }
        }
        let counters = self.counters.lock().unwrap().clone();
        let mut cov = Map::new();
        let evaluations = *counters.get("evaluations").unwrap_or(&0);
        cov.insert("evaluations".into(), json!(evaluations));
        cov.insert("distinct_nontrivial".into(), json!(self.n_distinct()));
        cov.insert("rule".into(), json!(rule));
        cov.insert("samples".into(), J::Array(self.samples.lock().unwrap().clone()));
        let caps = self.caps.lock().unwrap().clone();
        cov.insert("exhaustive".into(), json!(exhaustive && caps.is_empty()));
        cov.insert("caps_hit".into(), json!(caps));
        for (k, v) in counters.iter() {
            if k != "evaluations" {
                cov.insert(k.clone(), json!(v));
            }
        }
        for (k, v) in self.extra.lock().unwrap().iter() {
            cov.insert(k.clone(), v.clone());
        }
        cov.insert(
            "known_findings_reproduced".into(),
            json!(known_hits.iter().map(|k| k.0.clone()).collect::<Vec<_>>()),
        );
        let ev = json!({
            "property_id": self.id,
            "tier": self.tier.name(),
            "seed": self.seed,
            "level": level,
            "coverage": J::Object(cov),
            "assumptions": assumptions,
            "wall_s": self.elapsed(),
            "violations": new_viols.len(),
        });
        let path = format!("{}/evidence/{}.json", dir, self.id);
        let _ = std::fs::create_dir_all(format!("{}/evidence", dir));
        std::fs::write(&path, serde_json::to_string_pretty(&ev).unwrap() + "\n")
            .expect("cannot write evidence");

        // non-vacuity: a run whose named counters are zero is a machinery failure
        for k in nonvacuity_keys {
            if *counters.get(*k).unwrap_or(&0) == 0 {
                println!("MACHINERY-ERROR property={} vacuous: counter '{}' is zero", self.id, k);
                return 2;
            }
        }
        for (sig, what) in known_hits.iter() {
            println!("KNOWN-FINDING: property={} {} [{}]", self.id, what, sig);
        }
        if new_viols.is_empty() {
            println!(
                "OK property={} tier={} evaluations={} distinct={} wall_s={:.1}",
                self.id,
                self.tier.name(),
                evaluations,
                self.n_distinct(),
                self.elapsed()
            );
            return 0;
        }
        let _ = std::fs::create_dir_all(format!("{}/replays", dir));
        for v in new_viols.iter() {
            let fname = format!(
                "{}/replays/{}-{:016x}.json",
                dir,
                self.id,
                hash_str(&v.signature)
            );
            let rec = json!({
                "property": self.id,
                "tier": self.tier.name(),
                "seed": self.seed,
                "signature": v.signature,
                "what": v.what,
                "case": v.case,
            });
            let _ = std::fs::write(&fname, serde_json::to_string_pretty(&rec).unwrap() + "\n");
            println!("DETAIL property={} signature={} {}", self.id, v.signature, v.what);
            println!("VIOLATION property={} replay={}", self.id, fname);
        }
        1
    }
}

/// (signature, what) entries of known_findings.json for a property.
fn load_known(dir: &str, id: &str) -> Vec<(String, String)> {
    let mut out = vec![];
    let files = vec![format!("{}/known_findings.json", dir)];
    for path in files {
        let txt = match std::fs::read_to_string(&path) {
            Ok(t) => t,
            Err(_) => continue,
        };
        let j: J = match serde_json::from_str(&txt) {
            Ok(j) => j,
            Err(e) => {
                println!("MACHINERY-ERROR cannot parse {}: {}", path, e);
                std::process::exit(2);
            }
        };
        if let Some(arr) = j.get("findings").and_then(|x| x.as_array()) {
            for f in arr {
                if f.get("property").and_then(|x| x.as_str()) == Some(id) {
                    out.push((
                        f.get("signature").and_then(|x| x.as_str()).unwrap_or("").to_string(),
                        f.get("what").and_then(|x| x.as_str()).unwrap_or("").to_string(),
                    ));
                }
            }
        }
    }
    out
}

pub fn hash_str(s: &str) -> u64 {
    // FNV-1a, stable across runs (std's DefaultHasher is also stable for a fixed key, but be explicit)
    let mut h: u64 = 0xcbf29ce484222325;
    for b in s.as_bytes() {
        h ^= *b as u64;
        h = h.wrapping_mul(0x100000001b3);
    }
    h
}

pub fn hash_bytes(bs: &[u8]) -> u64 {
    let mut h: u64 = 0xcbf29ce484222325;
    for b in bs {
        h ^= *b as u64;
        h = h.wrapping_mul(0x100000001b3);
    }
    h
}

thread_local! {
    static LAST_PANIC: RefCell<Option<String>> = RefCell::new(None);
}

/// Installs a quiet panic hook that records the message per thread.
pub fn install_panic_hook() {
    std::panic::set_hook(Box::new(|info| {
        let msg = if let Some(s) = info.payload().downcast_ref::<&str>() {
            s.to_string()
        } else if let Some(s) = info.payload().downcast_ref::<String>() {
            s.clone()
        } else {
            "<non-string panic>".to_string()
        };
        let loc = info
            .location()
            .map(|l| format!("{}:{}", l.file(), l.line()))
            .unwrap_or_default();
        if std::env::var("VERIF_LOUD_PANICS").is_ok() {
            eprintln!("panic: {} at {}", msg, loc);
        }
        LAST_PANIC.with(|p| *p.borrow_mut() = Some(format!("{} at {}", msg, loc)));
    }));
}

/// Runs f, turning a panic into Err(message with location).
pub fn catch<T>(f: impl FnOnce() -> T) -> std::result::Result<T, String> {
    match catch_unwind(AssertUnwindSafe(f)) {
        Ok(v) => Ok(v),
        Err(_) => Err(LAST_PANIC.with(|p| p.borrow_mut().take()).unwrap_or_else(|| "panic".into())),
    }
}

/// Strips line numbers / variable data from an error or panic message to get a stable signature part.
pub fn stable_msg(msg: &str) -> String {
    let first = msg.lines().next().unwrap_or("");
    let mut out = String::new();
    let mut last_digit = false;
    for c in first.chars() {
        if c.is_ascii_digit() {
            if !last_digit {
                out.push('#');
            }
            last_digit = true;
        } else {
            last_digit = false;
            out.push(c);
        }
    }
    out.chars().take(100).collect()
}

/// splitmix64, the harness's only pseudo-random source (for seed-derived extra values)
pub struct SplitMix(pub u64);
impl SplitMix {
    pub fn next(&mut self) -> u64 {
        self.0 = self.0.wrapping_add(0x9E3779B97F4A7C15);
        let mut z = self.0;
        z = (z ^ (z >> 30)).wrapping_mul(0xBF58476D1CE4E5B9);
        z = (z ^ (z >> 27)).wrapping_mul(0x94D049BB133111EB);
        z ^ (z >> 31)
    }
    pub fn bytes(&mut self, n: usize) -> Vec<u8> {
        let mut v = Vec::with_capacity(n + 8);
        while v.len() < n {
            v.extend_from_slice(&self.next().to_le_bytes());
        }
        v.truncate(n);
        v
    }
}
