//! E1 - protocol executor with owned nondeterminism.
//! Walks a fully inlined graph and calls the real `SimpleEvaluator::evaluate_node` for every node,
//! either once per node (global mode) or once per node and party (three-party mode).
use crate::common::catch;
use ciphercore_base::data_types::Type;
use ciphercore_base::data_values::Value;
use ciphercore_base::evaluators::simple_evaluator::SimpleEvaluator;
use ciphercore_base::evaluators::Evaluator;
use ciphercore_base::graphs::{Context, Graph, Node, NodeAnnotation, Operation};
use ciphercore_base::random::SEED_SIZE;

pub struct PlanNode {
    pub node: Node,
    pub op: Operation,
    pub deps: Vec<usize>,
    pub sends: Vec<(usize, usize)>,
    pub ty: Type,
}

pub struct Plan {
    pub graph: Graph,
    pub nodes: Vec<PlanNode>,
    pub inputs: Vec<usize>,
    pub output: usize,
}

impl Plan {
    pub fn new(graph: &Graph) -> Result<Plan, String> {
        let mut nodes = vec![];
        let mut inputs = vec![];
        for (i, n) in graph.get_nodes().into_iter().enumerate() {
            let op = n.get_operation();
            if matches!(op, Operation::Call | Operation::Iterate | Operation::Custom(_)) {
                return Err(format!("graph is not fully inlined/instantiated: node {} is {}", i, op));
            }
            if op.is_input() {
                inputs.push(i);
            }
            let deps = n.get_node_dependencies().iter().map(|d| d.get_id() as usize).collect();
            let mut sends = vec![];
            for a in n.get_annotations().map_err(|e| e.to_string())? {
                if let NodeAnnotation::Send(s, r) = a {
                    sends.push((s as usize, r as usize));
                }
            }
            let ty = n.get_type().map_err(|e| e.to_string())?;
            nodes.push(PlanNode { node: n, op, deps, sends, ty });
        }
        let output = graph.get_output_node().map_err(|e| e.to_string())?.get_id() as usize;
        Ok(Plan { graph: graph.clone(), nodes, inputs, output })
    }
    pub fn of_context(c: &Context) -> Result<Plan, String> {
        Plan::new(&c.get_main_graph().map_err(|e| e.to_string())?)
    }
}

pub fn seed_bytes(seed: u64) -> [u8; SEED_SIZE] {
    let mut s = [0u8; SEED_SIZE];
    s[..8].copy_from_slice(&seed.to_le_bytes());
    s[8..].copy_from_slice(&(!seed).wrapping_mul(0x9E3779B97F4A7C15).to_le_bytes());
    s
}

pub fn new_eval(seed: u64) -> SimpleEvaluator {
    SimpleEvaluator::new(Some(seed_bytes(seed))).unwrap()
}

/// The harness's answers for randomness ("scripted" mode). Returning None falls back to the real
/// evaluator (real PRNG / real AES PRF).
pub trait Oracle {
    fn random(&mut self, _party: usize, _idx: usize, _t: &Type) -> Option<Value> {
        None
    }
    fn prf(&mut self, _party: usize, _idx: usize, _key: &[u8], _iv: u64, _t: &Type) -> Option<Value> {
        None
    }
    fn perm_prf(&mut self, _party: usize, _idx: usize, _key: &[u8], _iv: u64, _n: u64) -> Option<Value> {
        None
    }
    fn random_perm(&mut self, _party: usize, _idx: usize, _n: u64) -> Option<Value> {
        None
    }
    /// called with every value produced (party, node index)
    fn observe(&mut self, _party: usize, _idx: usize, _v: &Value) {}
}

pub struct RealRandomness;
impl Oracle for RealRandomness {}

fn eval_one(
    ev: &mut SimpleEvaluator,
    oracle: &mut dyn Oracle,
    party: usize,
    idx: usize,
    pn: &PlanNode,
    deps: Vec<Value>,
) -> Result<Value, String> {
    let scripted = match &pn.op {
        Operation::Random(t) => oracle.random(party, idx, t),
        Operation::RandomPermutation(n) => oracle.random_perm(party, idx, *n),
        Operation::PRF(iv, t) => {
            let key = deps[0].access_bytes(|b| Ok(b.to_vec())).map_err(|e| e.to_string())?;
            oracle.prf(party, idx, &key, *iv, t)
        }
        Operation::PermutationFromPRF(iv, n) => {
            let key = deps[0].access_bytes(|b| Ok(b.to_vec())).map_err(|e| e.to_string())?;
            oracle.perm_prf(party, idx, &key, *iv, *n)
        }
        _ => None,
    };
    let v = match scripted {
        Some(v) => v,
        None => {
            let node = pn.node.clone();
            match catch(|| ev.evaluate_node(node, deps)) {
                Ok(Ok(v)) => v,
                Ok(Err(e)) => return Err(format!("error: {}", first_line(&e.to_string()))),
                Err(p) => return Err(format!("panic: {}", p)),
            }
        }
    };
    oracle.observe(party, idx, &v);
    Ok(v)
}

pub fn first_line(s: &str) -> String {
    s.lines().next().unwrap_or("").chars().take(160).collect()
}

/// Global mode: one value per node. Returns all node values, or the failing node's index and message.
pub fn run_global(
    plan: &Plan,
    inputs: &[Value],
    ev: &mut SimpleEvaluator,
    oracle: &mut dyn Oracle,
) -> Result<Vec<Value>, (usize, String)> {
    let mut vals: Vec<Value> = Vec::with_capacity(plan.nodes.len());
    let mut next_input = 0;
    for (i, pn) in plan.nodes.iter().enumerate() {
        if pn.op.is_input() {
            if next_input >= inputs.len() {
                return Err((i, "too few inputs".into()));
            }
            vals.push(inputs[next_input].clone());
            next_input += 1;
            continue;
        }
        let deps: Vec<Value> = pn.deps.iter().map(|d| vals[*d].clone()).collect();
        match eval_one(ev, oracle, 0, i, pn, deps) {
            Ok(v) => vals.push(v),
            Err(m) => return Err((i, m)),
        }
    }
    Ok(vals)
}

#[derive(Clone)]
pub enum PVal {
    Val(Value),
    /// the party could not compute this node (error / panic / poisoned dependency); (origin node, message)
    Poison(usize, String),
    /// a tuple / vector some of whose components the party could not compute
    Parts(Vec<PVal>),
}

impl PVal {
    pub fn val(&self) -> Option<Value> {
        match self {
            PVal::Val(v) => Some(v.clone()),
            PVal::Poison(_, _) => None,
            PVal::Parts(ps) => {
                let mut out = vec![];
                for p in ps {
                    out.push(p.val()?);
                }
                Some(Value::from_vector(out))
            }
        }
    }
    pub fn first_poison(&self) -> Option<(usize, String)> {
        match self {
            PVal::Val(_) => None,
            PVal::Poison(o, m) => Some((*o, m.clone())),
            PVal::Parts(ps) => ps.iter().find_map(|p| p.first_poison()),
        }
    }
    /// component i of a tuple/vector-valued PVal
    pub fn part(&self, i: usize) -> PVal {
        match self {
            PVal::Val(v) => match v.to_vector() {
                Ok(vs) if i < vs.len() => PVal::Val(vs[i].clone()),
                _ => PVal::Poison(usize::MAX, "part of a non-vector value".into()),
            },
            PVal::Poison(o, m) => PVal::Poison(*o, m.clone()),
            PVal::Parts(ps) => {
                if i < ps.len() {
                    ps[i].clone()
                } else {
                    PVal::Poison(usize::MAX, "part index out of range".into())
                }
            }
        }
    }
}

pub struct ThreeRun {
    /// vals[party][node]
    pub vals: [Vec<PVal>; 3],
    /// (node, sender, receiver, message) for every Send whose sender holds poison
    pub poisoned_sends: Vec<(usize, usize, usize, String)>,
    pub sends: u64,
    pub party_steps: u64,
}

fn eval_party(
    plan: &Plan,
    vals: &[PVal],
    ev: &mut SimpleEvaluator,
    oracle: &mut dyn Oracle,
    p: usize,
    i: usize,
    party_steps: &mut u64,
) -> PVal {
    let pn = &plan.nodes[i];
    let all_plain = pn.deps.iter().all(|d| matches!(vals[*d], PVal::Val(_)));
    if !all_plain {
        // structural operations keep the components a party can compute apart from the ones it cannot
        match &pn.op {
            Operation::CreateTuple | Operation::CreateNamedTuple(_) | Operation::CreateVector(_) => {
                return PVal::Parts(pn.deps.iter().map(|d| vals[*d].clone()).collect());
            }
            Operation::TupleGet(k) => return vals[pn.deps[0]].part(*k as usize),
            Operation::NamedTupleGet(name) => {
                let t = &plan.nodes[pn.deps[0]].ty;
                if let Ok(names) = t.get_names() {
                    if let Some(k) = names.iter().position(|n| n == name) {
                        return vals[pn.deps[0]].part(k);
                    }
                }
            }
            Operation::VectorGet => {
                if let PVal::Val(iv) = &vals[pn.deps[1]] {
                    let it = &plan.nodes[pn.deps[1]].ty;
                    if let Ok(k) = iv.to_u64(it.get_scalar_type()) {
                        return vals[pn.deps[0]].part(k as usize);
                    }
                }
            }
            Operation::NOP => return vals[pn.deps[0]].clone(),
            _ => {}
        }
    }
    let mut deps = Vec::with_capacity(pn.deps.len());
    for d in pn.deps.iter() {
        match vals[*d].val() {
            Some(v) => deps.push(v),
            None => {
                let (o, m) = vals[*d].first_poison().unwrap();
                return PVal::Poison(o, m);
            }
        }
    }
    *party_steps += 1;
    match eval_one(ev, oracle, p, i, pn, deps) {
        Ok(v) => PVal::Val(v),
        Err(m) => PVal::Poison(i, m),
    }
}

/// Three-party mode. `inputs[p]` is the input vector party p supplies.
pub fn run_three(
    plan: &Plan,
    inputs: &[Vec<Value>; 3],
    evs: &mut [SimpleEvaluator; 3],
    oracle: &mut dyn Oracle,
) -> ThreeRun {
    let n = plan.nodes.len();
    let mut vals: [Vec<PVal>; 3] = [Vec::with_capacity(n), Vec::with_capacity(n), Vec::with_capacity(n)];
    let mut poisoned_sends = vec![];
    let mut sends = 0u64;
    let mut party_steps = 0u64;
    let mut next_input = 0;
    for (i, pn) in plan.nodes.iter().enumerate() {
        if pn.op.is_input() {
            for p in 0..3 {
                vals[p].push(PVal::Val(inputs[p][next_input].clone()));
            }
            next_input += 1;
        } else {
            for p in 0..3 {
                let r = eval_party(plan, &vals[p], &mut evs[p], oracle, p, i, &mut party_steps);
                vals[p].push(r);
            }
        }
        for (s, r) in pn.sends.iter() {
            if *s > 2 || *r > 2 {
                continue;
            }
            sends += 1;
            let sv = vals[*s][i].clone();
            if let PVal::Poison(o, m) = &sv {
                poisoned_sends.push((i, *s, *r, format!("node {}: {}", o, m)));
            }
            if let Some(v) = sv.val() {
                oracle.observe(*r, i, &v);
            }
            vals[*r][i] = sv;
        }
    }
    ThreeRun { vals, poisoned_sends, sends, party_steps }
}
