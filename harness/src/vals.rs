//! Value helpers written independently of the library's conversion code
//! (byte layout: little-endian two's complement elements; bits packed 8 per byte, LSB first).
use ciphercore_base::data_types::{get_types_vector, ScalarType, Type, BIT};
use ciphercore_base::data_values::Value;
use serde_json::{json, Value as J};

pub fn st_bits(st: &ScalarType) -> u32 {
    match st {
        ScalarType::Bit => 1,
        ScalarType::U8 | ScalarType::I8 => 8,
        ScalarType::U16 | ScalarType::I16 => 16,
        ScalarType::U32 | ScalarType::I32 => 32,
        ScalarType::U64 | ScalarType::I64 => 64,
        ScalarType::U128 | ScalarType::I128 => 128,
    }
}
pub fn st_signed(st: &ScalarType) -> bool {
    matches!(
        st,
        ScalarType::I8 | ScalarType::I16 | ScalarType::I32 | ScalarType::I64 | ScalarType::I128
    )
}
pub fn st_mask(st: &ScalarType) -> u128 {
    let b = st_bits(st);
    if b == 128 {
        u128::MAX
    } else {
        (1u128 << b) - 1
    }
}
pub const ALL_ST: [ScalarType; 11] = [
    ScalarType::Bit,
    ScalarType::U8,
    ScalarType::I8,
    ScalarType::U16,
    ScalarType::I16,
    ScalarType::U32,
    ScalarType::I32,
    ScalarType::U64,
    ScalarType::I64,
    ScalarType::U128,
    ScalarType::I128,
];

pub fn num_elems(t: &Type) -> usize {
    match t {
        Type::Scalar(_) => 1,
        Type::Array(s, _) => s.iter().product::<u64>() as usize,
        _ => panic!("num_elems on non-array"),
    }
}

/// Encode residues (each already reduced mod 2^w) as the byte buffer of an array/scalar of st.
pub fn encode(elems: &[u128], st: &ScalarType) -> Vec<u8> {
    if *st == BIT {
        let mut out = vec![0u8; (elems.len() + 7) / 8];
        for (i, e) in elems.iter().enumerate() {
            if e & 1 == 1 {
                out[i / 8] |= 1 << (i % 8);
            }
        }
        out
    } else {
        let nb = (st_bits(st) / 8) as usize;
        let mut out = Vec::with_capacity(nb * elems.len());
        for e in elems {
            out.extend_from_slice(&e.to_le_bytes()[..nb]);
        }
        out
    }
}

/// Decode a byte buffer into n residues in [0, 2^w).
pub fn decode(bytes: &[u8], st: &ScalarType, n: usize) -> Option<Vec<u128>> {
    if *st == BIT {
        if bytes.len() != (n + 7) / 8 {
            return None;
        }
        Some((0..n).map(|i| ((bytes[i / 8] >> (i % 8)) & 1) as u128).collect())
    } else {
        let nb = (st_bits(st) / 8) as usize;
        if bytes.len() != nb * n {
            return None;
        }
        Some(
            (0..n)
                .map(|i| {
                    let mut b = [0u8; 16];
                    b[..nb].copy_from_slice(&bytes[i * nb..(i + 1) * nb]);
                    u128::from_le_bytes(b)
                })
                .collect(),
        )
    }
}

pub fn arr_value(elems: &[u128], st: &ScalarType) -> Value {
    let m = st_mask(st);
    let r: Vec<u128> = elems.iter().map(|e| e & m).collect();
    Value::from_bytes(encode(&r, st))
}

/// residues of an array/scalar value
pub fn arr_elems(v: &Value, t: &Type) -> Option<Vec<u128>> {
    let st = t.get_scalar_type();
    let n = num_elems(t);
    v.access_bytes(|b| Ok(decode(b, &st, n))).ok().flatten()
}

pub fn to_signed(r: u128, st: &ScalarType) -> i128 {
    let b = st_bits(st);
    if !st_signed(st) || b == 128 {
        return r as i128;
    }
    if r >> (b - 1) & 1 == 1 {
        (r as i128) - (1i128 << b)
    } else {
        r as i128
    }
}

/// Does the value have exactly the layout of the type (independent re-implementation of check_type,
/// plus: unused bits of bit arrays are zero)?
pub fn layout_ok(v: &Value, t: &Type) -> bool {
    match t {
        Type::Scalar(st) | Type::Array(_, st) => {
            let n = num_elems(t);
            v.access_bytes(|b| {
                if *st == BIT {
                    if b.len() != (n + 7) / 8 {
                        return Ok(false);
                    }
                    if n % 8 != 0 && !b.is_empty() {
                        let last = b[b.len() - 1];
                        if last >> (n % 8) != 0 {
                            return Ok(false);
                        }
                    }
                    Ok(true)
                } else {
                    Ok(b.len() == n * (st_bits(st) as usize / 8))
                }
            })
            .unwrap_or(false)
        }
        _ => {
            let ts = match get_types_vector(t.clone()) {
                Ok(ts) => ts,
                Err(_) => return false,
            };
            match v.to_vector() {
                Ok(vs) => {
                    vs.len() == ts.len() && vs.iter().zip(ts.iter()).all(|(x, tt)| layout_ok(x, tt))
                }
                Err(_) => false,
            }
        }
    }
}

/// Build a value of type t whose leaves are produced by f(leaf type, leaf index).
pub fn build_value(t: &Type, f: &mut dyn FnMut(&Type) -> Value) -> Value {
    match t {
        Type::Scalar(_) | Type::Array(_, _) => f(t),
        _ => {
            let ts = get_types_vector(t.clone()).unwrap();
            Value::from_vector(ts.iter().map(|tt| build_value(tt, f)).collect())
        }
    }
}

/// A value of type t filled with a byte pattern (unused bits of bit arrays cleared): a valid encoding.
pub fn pattern_value(t: &Type, next_byte: &mut dyn FnMut() -> u8) -> Value {
    build_value(t, &mut |lt| {
        let st = lt.get_scalar_type();
        let n = num_elems(lt);
        let nbytes = if st == BIT { (n + 7) / 8 } else { n * st_bits(&st) as usize / 8 };
        let mut b: Vec<u8> = (0..nbytes).map(|_| next_byte()).collect();
        if st == BIT && n % 8 != 0 && !b.is_empty() {
            let l = b.len() - 1;
            b[l] &= (1u8 << (n % 8)) - 1;
        }
        Value::from_bytes(b)
    })
}

/// Human-readable rendering of a value of a type (arrays as flat lists of integers).
pub fn show(v: &Value, t: &Type) -> J {
    match t {
        Type::Scalar(st) | Type::Array(_, st) => match arr_elems(v, t) {
            Some(e) => {
                if e.len() > 64 {
                    json!(format!("<{} elems>", e.len()))
                } else {
                    J::Array(e.iter().map(|x| json!(to_signed(*x, st).to_string())).collect())
                }
            }
            None => json!("<bad layout>"),
        },
        _ => {
            let ts = get_types_vector(t.clone()).unwrap();
            match v.to_vector() {
                Ok(vs) if vs.len() == ts.len() => {
                    J::Array(vs.iter().zip(ts.iter()).map(|(x, tt)| show(x, tt)).collect())
                }
                _ => json!("<bad layout>"),
            }
        }
    }
}

/// canonical byte key of a value tree (for hashing / multisets)
pub fn key(v: &Value, out: &mut Vec<u8>) {
    match v.to_vector() {
        Ok(vs) => {
            out.push(1);
            out.extend_from_slice(&(vs.len() as u32).to_le_bytes());
            for x in vs {
                key(&x, out);
            }
        }
        Err(_) => {
            let _ = v.access_bytes(|b| {
                out.push(0);
                out.extend_from_slice(&(b.len() as u32).to_le_bytes());
                out.extend_from_slice(b);
                Ok(())
            });
        }
    }
}

/// type-recursive modular addition of two values (independent of typed_value::generalized_add)
pub fn add_values(a: &Value, b: &Value, t: &Type) -> Option<Value> {
    match t {
        Type::Scalar(st) | Type::Array(_, st) => {
            let x = arr_elems(a, t)?;
            let y = arr_elems(b, t)?;
            let m = st_mask(st);
            let z: Vec<u128> = x.iter().zip(y.iter()).map(|(p, q)| p.wrapping_add(*q) & m).collect();
            Some(Value::from_bytes(encode(&z, st)))
        }
        _ => {
            let ts = get_types_vector(t.clone()).ok()?;
            let xs = a.to_vector().ok()?;
            let ys = b.to_vector().ok()?;
            if xs.len() != ts.len() || ys.len() != ts.len() {
                return None;
            }
            let mut out = vec![];
            for i in 0..ts.len() {
                out.push(add_values(&xs[i], &ys[i], &ts[i])?);
            }
            Some(Value::from_vector(out))
        }
    }
}
