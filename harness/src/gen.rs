//! E2 - bounded program enumerator over the MPC-compilable operation alphabet.
//! Programs are recipes (leaf types + steps); the REAL builder decides well-typedness.
use crate::common::catch;
use crate::vals;
use ciphercore_base::data_types::{
    array_type, named_tuple_type, scalar_type, tuple_type, vector_type, ScalarType, Type, BIT, INT32, UINT64, UINT8,
};
use ciphercore_base::data_values::Value;
use ciphercore_base::graphs::{create_context, Context, Graph, Node, SliceElement};

#[derive(Clone, Debug, PartialEq)]
pub enum Step {
    Add(usize, usize),
    Sub(usize, usize),
    Mul(usize, usize),
    MixedMul(usize, usize),
    Dot(usize, usize),
    Matmul(usize, usize),
    Gemm(usize, usize, bool, bool),
    Sum(usize, Vec<u64>),
    CumSum(usize, u64),
    Get(usize, Vec<u64>),
    Slice(usize, u8),
    Reshape(usize, Vec<u64>),
    Permute(usize, Vec<u64>),
    Stack(usize, usize),
    Concat(usize, usize, u64),
    Tuple(usize, usize),
    TupleGet(usize, u64),
    NamedTuple(usize, usize),
    NamedGet(usize, u8),
    Vector(usize, usize),
    VectorGet(usize, u64),
    Zip(usize, usize),
    Repeat(usize, u64),
    A2V(usize),
    V2A(usize),
    A2B(usize),
    B2A(usize, ScalarType),
    // n-ary structural operations (3-4 operands)
    ConcatN(Vec<usize>),
    StackN(Vec<usize>),
    TupleN(Vec<usize>),
    VectorN(Vec<usize>),
    NamedTupleN(Vec<usize>),
}

impl Step {
    pub fn operands(&self) -> Vec<usize> {
        use Step::*;
        match self {
            Add(a, b) | Sub(a, b) | Mul(a, b) | MixedMul(a, b) | Dot(a, b) | Matmul(a, b) | Gemm(a, b, _, _)
            | Stack(a, b) | Concat(a, b, _) | Tuple(a, b) | NamedTuple(a, b) | Vector(a, b) | Zip(a, b) => vec![*a, *b],
            Sum(a, _) | CumSum(a, _) | Get(a, _) | Slice(a, _) | Reshape(a, _) | Permute(a, _) | TupleGet(a, _)
            | NamedGet(a, _) | VectorGet(a, _) | Repeat(a, _) | A2V(a) | V2A(a) | A2B(a) | B2A(a, _) => vec![*a],
            ConcatN(v) | StackN(v) | TupleN(v) | VectorN(v) | NamedTupleN(v) => v.clone(),
        }
    }
    /// the same binary step with its two operands exchanged (None: not binary, or both operands are one node)
    pub fn swapped(&self) -> Option<Step> {
        use Step::*;
        let s = match self {
            Add(a, b) => Add(*b, *a),
            Sub(a, b) => Sub(*b, *a),
            Mul(a, b) => Mul(*b, *a),
            MixedMul(a, b) => MixedMul(*b, *a),
            Dot(a, b) => Dot(*b, *a),
            Matmul(a, b) => Matmul(*b, *a),
            Gemm(a, b, ta, tb) => Gemm(*b, *a, *ta, *tb),
            Stack(a, b) => Stack(*b, *a),
            Concat(a, b, ax) => Concat(*b, *a, *ax),
            Tuple(a, b) => Tuple(*b, *a),
            NamedTuple(a, b) => NamedTuple(*b, *a),
            Vector(a, b) => Vector(*b, *a),
            Zip(a, b) => Zip(*b, *a),
            _ => return None,
        };
        let o = self.operands();
        if o[0] == o[1] {
            return None;
        }
        Some(s)
    }
    /// does the protocol for this step produce a 3-out-of-3 sharing / use PRF masks when operands are private?
    pub fn is_multiplicative(&self) -> bool {
        matches!(
            self,
            Step::Mul(_, _) | Step::MixedMul(_, _) | Step::Dot(_, _) | Step::Matmul(_, _) | Step::Gemm(_, _, _, _)
                | Step::A2B(_) | Step::B2A(_, _)
        )
    }
}

pub fn slice_of(id: u8) -> Vec<SliceElement> {
    match id {
        0 => vec![SliceElement::SubArray(None, None, Some(-1))],
        1 => vec![SliceElement::SingleIndex(-1)],
        2 => vec![SliceElement::Ellipsis, SliceElement::SubArray(Some(0), Some(1), None)],
        _ => vec![SliceElement::SubArray(Some(1), None, None)],
    }
}

#[derive(Clone, Debug)]
pub enum Leaf {
    Input(Type),
    Const(Type, Vec<u128>),
}

#[derive(Clone, Debug)]
pub struct Recipe {
    pub leaves: Vec<Leaf>,
    pub steps: Vec<Step>,
}

impl Recipe {
    pub fn desc(&self) -> String {
        let l: Vec<String> = self
            .leaves
            .iter()
            .map(|l| match l {
                Leaf::Input(t) => format!("in:{}", t),
                Leaf::Const(t, _) => format!("const:{}", t),
            })
            .collect();
        format!("[{}] {:?}", l.join(","), self.steps)
    }
    pub fn input_types(&self) -> Vec<Type> {
        self.leaves
            .iter()
            .filter_map(|l| if let Leaf::Input(t) = l { Some(t.clone()) } else { None })
            .collect()
    }
}

pub fn apply(g: &Graph, nodes: &[Node], s: &Step) -> ciphercore_base::errors::Result<Node> {
    use Step::*;
    let n = |i: &usize| nodes[*i].clone();
    match s {
        Add(a, b) => g.add(n(a), n(b)),
        Sub(a, b) => g.subtract(n(a), n(b)),
        Mul(a, b) => g.multiply(n(a), n(b)),
        MixedMul(a, b) => g.mixed_multiply(n(a), n(b)),
        Dot(a, b) => g.dot(n(a), n(b)),
        Matmul(a, b) => g.matmul(n(a), n(b)),
        Gemm(a, b, ta, tb) => g.gemm(n(a), n(b), *ta, *tb),
        Sum(a, ax) => g.sum(n(a), ax.clone()),
        CumSum(a, ax) => g.cum_sum(n(a), *ax),
        Get(a, ix) => g.get(n(a), ix.clone()),
        Slice(a, id) => g.get_slice(n(a), slice_of(*id)),
        Reshape(a, sh) => {
            let st = n(a).get_type()?.get_scalar_type();
            g.reshape(n(a), array_type(sh.clone(), st))
        }
        Permute(a, ax) => g.permute_axes(n(a), ax.clone()),
        Stack(a, b) => g.stack(vec![n(a), n(b)], vec![2]),
        Concat(a, b, ax) => g.concatenate(vec![n(a), n(b)], *ax),
        Tuple(a, b) => g.create_tuple(vec![n(a), n(b)]),
        TupleGet(a, i) => g.tuple_get(n(a), *i),
        NamedTuple(a, b) => g.create_named_tuple(vec![("x".to_string(), n(a)), ("y".to_string(), n(b))]),
        NamedGet(a, k) => g.named_tuple_get(n(a), if *k == 0 { "x".to_string() } else { "y".to_string() }),
        Vector(a, b) => {
            let t = n(a).get_type()?;
            g.create_vector(t, vec![n(a), n(b)])
        }
        VectorGet(a, i) => {
            let idx = g.constant(scalar_type(UINT64), Value::from_scalar(*i, UINT64)?)?;
            g.vector_get(n(a), idx)
        }
        Zip(a, b) => g.zip(vec![n(a), n(b)]),
        Repeat(a, k) => g.repeat(n(a), *k),
        A2V(a) => g.array_to_vector(n(a)),
        V2A(a) => g.vector_to_array(n(a)),
        A2B(a) => g.a2b(n(a)),
        B2A(a, st) => g.b2a(n(a), *st),
        ConcatN(v) => g.concatenate(v.iter().map(n).collect(), 0),
        StackN(v) => g.stack(v.iter().map(n).collect(), vec![v.len() as u64]),
        TupleN(v) => g.create_tuple(v.iter().map(n).collect()),
        VectorN(v) => {
            let t = n(&v[0]).get_type()?;
            g.create_vector(t, v.iter().map(n).collect())
        }
        NamedTupleN(v) => g.create_named_tuple(
            v.iter().enumerate().map(|(k, i)| (format!("f{}", k), n(i))).collect(),
        ),
    }
}

pub struct Built {
    pub ctx: Context,
    /// types of leaves followed by types of steps
    pub types: Vec<Type>,
}

/// Builds the recipe with the real builder. Err = rejected by type inference (or panic message).
pub fn build(r: &Recipe) -> Result<Built, String> {
    let rr = r.clone();
    match catch(move || -> ciphercore_base::errors::Result<Built> {
        let c = create_context()?;
        let g = c.create_graph()?;
        let mut nodes: Vec<Node> = vec![];
        for l in rr.leaves.iter() {
            match l {
                Leaf::Input(t) => nodes.push(g.input(t.clone())?),
                Leaf::Const(t, e) => {
                    nodes.push(g.constant(t.clone(), vals::arr_value(e, &t.get_scalar_type()))?)
                }
            }
        }
        for s in rr.steps.iter() {
            let nn = apply(&g, &nodes, s)?;
            nodes.push(nn);
        }
        let mut types = vec![];
        for nn in nodes.iter() {
            types.push(nn.get_type()?);
        }
        g.set_output_node(nodes.last().unwrap().clone())?;
        g.finalize()?;
        c.set_main_graph(g)?;
        c.finalize()?;
        Ok(Built { ctx: c, types })
    }) {
        Ok(Ok(b)) => Ok(b),
        Ok(Err(e)) => Err(format!("rejected: {}", e.to_string().lines().next().unwrap_or(""))),
        Err(p) => Err(format!("panic: {}", p)),
    }
}

/// Candidate steps over the current node types; `must` = index that has to be an operand (chain rule), if any.
pub fn candidates(types: &[Type], must: Option<usize>) -> Vec<Step> {
    use Step::*;
    let n = types.len();
    let mut out: Vec<Step> = vec![];
    let uses = |s: &Step| must.map(|m| s.operands().contains(&m)).unwrap_or(true);
    // n-ary structural operations over the first k / last k nodes (both orders)
    for k in [3usize, 4] {
        if n >= k {
            let mut lists: Vec<Vec<usize>> = vec![(0..k).collect(), (n - k..n).collect(), (n - k..n).rev().collect()];
            lists.dedup();
            for l in lists {
                for s in [ConcatN(l.clone()), StackN(l.clone()), TupleN(l.clone()), VectorN(l.clone()), NamedTupleN(l.clone())] {
                    if uses(&s) && !out.contains(&s) {
                        out.push(s);
                    }
                }
            }
        }
    }
    for a in 0..n {
        let ta = &types[a];
        // unary
        let mut un: Vec<Step> = vec![];
        if let Type::Array(sh, st) = ta {
            let r = sh.len() as u64;
            un.push(Sum(a, vec![0]));
            if r > 1 {
                un.push(Sum(a, vec![r - 1]));
                un.push(Sum(a, (0..r).collect()));
                un.push(CumSum(a, r - 1));
                un.push(Permute(a, (0..r).rev().collect()));
            }
            un.push(CumSum(a, 0));
            un.push(Get(a, vec![0]));
            un.push(Get(a, vec![sh[0] - 1]));
            for id in 0..4u8 {
                un.push(Slice(a, id));
            }
            let total: u64 = sh.iter().product();
            if r > 1 {
                un.push(Reshape(a, vec![total]));
            } else if total == 4 {
                un.push(Reshape(a, vec![2, 2]));
            } else if total == 2 {
                un.push(Reshape(a, vec![2, 1]));
            }
            un.push(A2V(a));
            if *st != BIT {
                un.push(A2B(a));
            } else {
                for t in [UINT8, INT32] {
                    un.push(B2A(a, t));
                }
            }
        }
        if let Type::Scalar(st) = ta {
            if *st != BIT {
                un.push(A2B(a));
            }
        }
        match ta {
            Type::Tuple(v) => {
                for i in 0..v.len().min(2) {
                    un.push(TupleGet(a, i as u64));
                }
            }
            Type::NamedTuple(_) => {
                un.push(NamedGet(a, 0));
                un.push(NamedGet(a, 1));
            }
            Type::Vector(len, _) => {
                un.push(VectorGet(a, 0));
                if *len > 1 {
                    un.push(VectorGet(a, len - 1));
                }
                un.push(V2A(a));
            }
            _ => {}
        }
        un.push(Repeat(a, 2));
        for s in un {
            if uses(&s) {
                out.push(s);
            }
        }
        // binary
        for b in 0..n {
            let mut bi: Vec<Step> = vec![];
            if a <= b {
                bi.push(Add(a, b));
                bi.push(Mul(a, b));
            }
            bi.push(Sub(a, b));
            bi.push(MixedMul(a, b));
            bi.push(Dot(a, b));
            bi.push(Matmul(a, b));
            for (x, y) in [(false, false), (true, false), (false, true), (true, true)] {
                bi.push(Gemm(a, b, x, y));
            }
            bi.push(Stack(a, b));
            bi.push(Concat(a, b, 0));
            if let Type::Array(sh, _) = ta {
                if sh.len() > 1 {
                    bi.push(Concat(a, b, sh.len() as u64 - 1));
                }
            }
            bi.push(Tuple(a, b));
            bi.push(NamedTuple(a, b));
            bi.push(Vector(a, b));
            bi.push(Zip(a, b));
            for s in bi {
                if uses(&s) {
                    out.push(s);
                }
            }
        }
    }
    out
}

/// All accepted recipes with exactly `depth` steps extending `base` (chain rule: each new step uses the previous one).
pub fn extend(base: &Recipe, base_types: &[Type]) -> Vec<(Recipe, Vec<Type>)> {
    let must = if base.steps.is_empty() { None } else { Some(base_types.len() - 1) };
    let mut out = vec![];
    for s in candidates(base_types, must) {
        let mut r = base.clone();
        r.steps.push(s);
        if let Ok(b) = build(&r) {
            out.push((r, b.types));
        }
    }
    out
}

/// Leaf families: the typed inputs (and one public constant) programs are built from.
pub fn families(thorough: bool) -> Vec<Vec<Leaf>> {
    let i32_2 = array_type(vec![2], INT32);
    let u8_22 = array_type(vec![2, 2], UINT8);
    let u64_2 = array_type(vec![2], UINT64);
    let bit2 = array_type(vec![2], BIT);
    let bit22 = array_type(vec![2, 2], BIT);
    let mut f = vec![
        vec![Leaf::Input(i32_2.clone()), Leaf::Input(i32_2.clone())],
        vec![Leaf::Input(bit2.clone()), Leaf::Input(bit2.clone())],
        vec![Leaf::Input(u8_22.clone()), Leaf::Input(u8_22.clone())],
        vec![Leaf::Input(i32_2.clone()), Leaf::Input(bit2.clone())],
        vec![Leaf::Input(i32_2.clone()), Leaf::Const(i32_2.clone(), vec![3, (-5i128) as u128])],
        vec![Leaf::Input(scalar_type(UINT64)), Leaf::Input(u64_2.clone())],
        vec![Leaf::Input(array_type(vec![2, 8], BIT)), Leaf::Input(array_type(vec![2, 8], BIT))],
        // structured inputs: the input-sharing code for tuples / vectors / named tuples
        vec![Leaf::Input(tuple_type(vec![i32_2.clone(), bit2.clone()])), Leaf::Input(i32_2.clone())],
        vec![Leaf::Input(vector_type(2, i32_2.clone())), Leaf::Input(i32_2.clone())],
        vec![Leaf::Input(named_tuple_type(vec![("x".to_string(), i32_2.clone()), ("y".to_string(), u64_2.clone())]))],
        // four leaves: n-ary structural operations with private and public operands in every position
        vec![Leaf::Input(i32_2.clone()), Leaf::Input(i32_2.clone()), Leaf::Input(i32_2.clone()), Leaf::Const(i32_2.clone(), vec![41, 42])],
        vec![Leaf::Input(i32_2.clone()), Leaf::Input(i32_2.clone()), Leaf::Input(i32_2.clone()), Leaf::Input(i32_2.clone())],
        // operands of different shapes: broadcasting inside the protocols, matrix x vector, rectangular matrices
        vec![Leaf::Input(array_type(vec![2, 2], INT32)), Leaf::Input(i32_2.clone())],
        vec![Leaf::Input(array_type(vec![2, 3], UINT8)), Leaf::Input(array_type(vec![3, 2], UINT8))],
        vec![Leaf::Input(array_type(vec![2, 1], BIT)), Leaf::Input(array_type(vec![1, 2], BIT))],
        // 128-bit ring
        vec![Leaf::Input(array_type(vec![2], ciphercore_base::data_types::INT128)), Leaf::Input(array_type(vec![2], ciphercore_base::data_types::INT128))],
    ];
    if thorough {
        f.push(vec![Leaf::Input(array_type(vec![2, 1, 2], ciphercore_base::data_types::INT64)), Leaf::Input(array_type(vec![2, 2], ciphercore_base::data_types::INT64))]);
        f.push(vec![Leaf::Input(bit22.clone()), Leaf::Input(bit22)]);
        f.push(vec![Leaf::Input(scalar_type(INT32)), Leaf::Input(scalar_type(BIT))]);
        f.push(vec![
            Leaf::Input(i32_2.clone()),
            Leaf::Input(i32_2.clone()),
            Leaf::Input(i32_2),
        ]);
    }
    f
}

/// Whole-array input alphabet for a type: position-dependent boundary patterns (bits: exhaustive up to 4 elements).
pub fn input_alphabet(t: &Type) -> Vec<Value> {
    match t {
        Type::Scalar(st) | Type::Array(_, st) => {
            let n = vals::num_elems(t);
            if *st == BIT {
                if n <= 4 {
                    return (0..(1u32 << n))
                        .map(|m| vals::arr_value(&(0..n).map(|i| (m >> i & 1) as u128).collect::<Vec<_>>(), st))
                        .collect();
                }
                let pats: Vec<Vec<u128>> = vec![
                    vec![0; n],
                    vec![1; n],
                    (0..n).map(|i| (i % 2) as u128).collect(),
                    (0..n).map(|i| ((i * 7 + 3) % 5 % 2) as u128).collect(),
                    (0..n).map(|i| ((i / 8 + i) % 2) as u128).collect(),
                ];
                return pats.iter().map(|p| vals::arr_value(p, st)).collect();
            }
            let w = vals::st_bits(st);
            let m = vals::st_mask(st);
            let half = 1u128 << (w - 1);
            let alpha = [0u128, 1, 2, m, m - 1, half, half - 1, half + 1, 3, 0x55555555_55555555_55555555_55555555 & m];
            let pats: Vec<Vec<u128>> = vec![
                vec![0; n],
                (0..n).map(|i| alpha[(i + 1) % alpha.len()]).collect(),
                (0..n).map(|i| alpha[(i + 3) % alpha.len()]).collect(),
                (0..n).map(|i| alpha[(2 * i + 5) % alpha.len()]).collect(),
                (0..n).map(|i| alpha[(3 * i + 8) % alpha.len()]).collect(),
            ];
            pats.iter().map(|p| vals::arr_value(p, st)).collect()
        }
        _ => {
            let ts = ciphercore_base::data_types::get_types_vector(t.clone()).unwrap();
            let subs: Vec<Vec<Value>> = ts.iter().map(|x| input_alphabet(x)).collect();
            let k = subs.iter().map(|s| s.len()).max().unwrap_or(1);
            (0..k)
                .map(|i| Value::from_vector(subs.iter().map(|s| s[i % s.len()].clone()).collect()))
                .collect()
        }
    }
}

/// cross product of the per-input alphabets, capped at `cap` combinations taken in mixed-radix order with a stride
pub fn input_vectors(types: &[Type], cap: usize) -> Vec<Vec<Value>> {
    let alph: Vec<Vec<Value>> = types.iter().map(input_alphabet).collect();
    let total: usize = alph.iter().map(|a| a.len()).product();
    let mut out = vec![];
    let take = total.min(cap);
    for k in 0..take {
        // spread evenly over the full cross product when capped (deterministic)
        let mut idx = if total <= cap { k } else { k * total / take };
        let mut v = vec![];
        for a in alph.iter() {
            v.push(a[idx % a.len()].clone());
            idx /= a.len();
        }
        out.push(v);
    }
    out
}
