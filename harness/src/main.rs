//! vcheck - bounded-exhaustive / explicit-state checks of the ciphercore properties C01..C20.
//! usage: vcheck <ID> [--tier quick|thorough] [--replay FILE]
mod common;
mod exec;
mod gen;
mod vals;
mod mpcx;
mod props;

use common::{Report, Tier};

fn main() {
    // anyhow captures a backtrace for every library Err when RUST_BACKTRACE is set: ruinous for enumerations
    // that provoke millions of builder rejections
    std::env::set_var("RUST_LIB_BACKTRACE", "0");
    std::env::set_var("RUST_BACKTRACE", "0");
    let args: Vec<String> = std::env::args().collect();
    if args.len() < 2 {
        eprintln!("usage: vcheck <ID> [--tier quick|thorough] [--replay FILE]");
        std::process::exit(2);
    }
    let id = args[1].clone();
    let mut tier = match std::env::var("VERIF_TIER").ok().as_deref() {
        Some("thorough") => Tier::Thorough,
        _ => Tier::Quick,
    };
    let mut replay: Option<String> = None;
    let mut i = 2;
    while i < args.len() {
        match args[i].as_str() {
            "--tier" => {
                tier = if args.get(i + 1).map(|s| s.as_str()) == Some("thorough") {
                    Tier::Thorough
                } else {
                    Tier::Quick
                };
                i += 1;
            }
            "--replay" => {
                replay = args.get(i + 1).cloned();
                i += 1;
            }
            _ => {}
        }
        i += 1;
    }
    let seed: u64 = std::env::var("VERIF_SEED").ok().and_then(|s| s.parse().ok()).unwrap_or(0);
    common::install_panic_hook();
    if let Ok(n) = std::env::var("VERIF_THREADS") {
        if let Ok(n) = n.parse::<usize>() {
            let _ = rayon::ThreadPoolBuilder::new().num_threads(n).stack_size(64 << 20).build_global();
        }
    } else {
        let _ = rayon::ThreadPoolBuilder::new().stack_size(64 << 20).build_global();
    }
    let report = Report::new(&id, tier, seed);
    let code = if let Some(path) = replay {
        let txt = std::fs::read_to_string(&path).unwrap_or_else(|e| {
            eprintln!("cannot read {}: {}", path, e);
            std::process::exit(2)
        });
        let rec: serde_json::Value = serde_json::from_str(&txt).unwrap_or_else(|e| {
            eprintln!("cannot parse {}: {}", path, e);
            std::process::exit(2)
        });
        props::replay(&id, &report, &rec)
    } else {
        props::run(&id, &report)
    };
    std::process::exit(code);
}
