//! Helpers around the MPC compiler: owner configurations, compilation, input preparation for the
//! global and the three-party execution, output checks.
use crate::common::catch;
use crate::exec::{first_line, new_eval, run_global, run_three, Oracle, PVal, Plan, ThreeRun};
use crate::vals;
use ciphercore_base::data_types::{tuple_type, Type};
use ciphercore_base::data_values::Value;
use ciphercore_base::evaluators::simple_evaluator::SimpleEvaluator;
use ciphercore_base::evaluators::Evaluator;
use ciphercore_base::graphs::{Context, Operation};
use ciphercore_base::inline::inline_ops::{DepthOptimizationLevel, InlineConfig, InlineMode};
use ciphercore_base::mpc::mpc_compiler::{compile_context, IOStatus};

#[derive(Clone, Copy, PartialEq, Eq, Debug, Hash)]
pub enum Owner {
    P(u8),
    Public,
    Shared,
}

impl Owner {
    pub fn status(&self) -> IOStatus {
        match self {
            Owner::P(i) => IOStatus::Party(*i as u64),
            Owner::Public => IOStatus::Public,
            Owner::Shared => IOStatus::Shared,
        }
    }
    pub fn name(&self) -> String {
        match self {
            Owner::P(i) => format!("P{}", i),
            Owner::Public => "pub".into(),
            Owner::Shared => "shared".into(),
        }
    }
    pub const ALL: [Owner; 5] = [Owner::P(0), Owner::P(1), Owner::P(2), Owner::Public, Owner::Shared];
}

/// all owner vectors of length n over Owner::ALL
pub fn owner_vectors(n: usize) -> Vec<Vec<Owner>> {
    let mut out = vec![vec![]];
    for _ in 0..n {
        let mut next = vec![];
        for v in out.iter() {
            for o in Owner::ALL.iter() {
                let mut w = v.clone();
                w.push(*o);
                next.push(w);
            }
        }
        out = next;
    }
    out
}

/// the 8 output-party subsets as sorted vectors
pub fn output_subsets() -> Vec<Vec<u8>> {
    (0..8u8)
        .map(|m| (0..3u8).filter(|i| m >> i & 1 == 1).collect())
        .collect()
}

/// the 8 output-party lists that are not in ascending order (the API takes an ordered list: the first party
/// listed reveals and forwards to the others)
pub fn output_lists_unsorted() -> Vec<Vec<u8>> {
    vec![vec![1, 0], vec![2, 0], vec![2, 1], vec![0, 2, 1], vec![1, 0, 2], vec![1, 2, 0], vec![2, 0, 1], vec![2, 1, 0]]
}

pub fn modes() -> Vec<(&'static str, InlineMode)> {
    vec![
        ("simple", InlineMode::Simple),
        ("depth-default", InlineMode::DepthOptimized(DepthOptimizationLevel::Default)),
        ("depth-extreme", InlineMode::DepthOptimized(DepthOptimizationLevel::Extreme)),
    ]
}

pub fn inline_config(mode: &InlineMode) -> InlineConfig {
    InlineConfig { default_mode: mode.clone(), ..Default::default() }
}

/// The real pipeline: instantiate + inline + optimize + compile to MPC + instantiate + inline + uniquify + optimize.
pub fn compile(
    ctx: &Context,
    owners: &[Owner],
    outs: &[u8],
    mode: &InlineMode,
) -> Result<Context, String> {
    let ins: Vec<IOStatus> = owners.iter().map(|o| o.status()).collect();
    let outs: Vec<IOStatus> = outs.iter().map(|i| IOStatus::Party(*i as u64)).collect();
    let cfg = inline_config(mode);
    let c = ctx.clone();
    match catch(move || compile_context(c, ins, outs, cfg, || SimpleEvaluator::new(Some([7u8; 16])))) {
        Ok(Ok(m)) => Ok(m.get_context()),
        Ok(Err(e)) => Err(format!("error: {}", first_line(&e.to_string()))),
        Err(p) => Err(format!("panic: {}", p)),
    }
}

/// source-graph input types of the main graph
pub fn input_types(ctx: &Context) -> Vec<Type> {
    let g = ctx.get_main_graph().unwrap();
    g.get_nodes()
        .iter()
        .filter_map(|n| if let Operation::Input(t) = n.get_operation() { Some(t) } else { None })
        .collect()
}

pub fn output_type(ctx: &Context) -> Type {
    ctx.get_main_graph().unwrap().get_output_node().unwrap().get_type().unwrap()
}

/// plaintext evaluation of the source context with the library's evaluator
pub fn eval_plain(ctx: &Context, inputs: &[Value], seed: u64) -> Result<Value, String> {
    let mut ev = new_eval(seed);
    let c = ctx.clone();
    let ins = inputs.to_vec();
    match catch(move || {
        ev.preprocess(&c)?;
        ev.evaluate_context(c, ins)
    }) {
        Ok(Ok(v)) => Ok(v),
        Ok(Err(e)) => Err(format!("error: {}", first_line(&e.to_string()))),
        Err(p) => Err(format!("panic: {}", p)),
    }
}

/// type-recursive subtraction a - b (independent helper)
fn sub_values(a: &Value, b: &Value, t: &Type) -> Value {
    match t {
        Type::Scalar(st) | Type::Array(_, st) => {
            let x = vals::arr_elems(a, t).unwrap();
            let y = vals::arr_elems(b, t).unwrap();
            let m = vals::st_mask(st);
            let z: Vec<u128> = x.iter().zip(y.iter()).map(|(p, q)| p.wrapping_sub(*q) & m).collect();
            Value::from_bytes(vals::encode(&z, st))
        }
        _ => {
            let ts = ciphercore_base::data_types::get_types_vector(t.clone()).unwrap();
            let xs = a.to_vector().unwrap();
            let ys = b.to_vector().unwrap();
            Value::from_vector((0..ts.len()).map(|i| sub_values(&xs[i], &ys[i], &ts[i])).collect())
        }
    }
}

/// Split v into three additive shares where shares 0 and 1 are filled from the byte source.
pub fn split_shares(v: &Value, t: &Type, next_byte: &mut dyn FnMut() -> u8) -> [Value; 3] {
    let s0 = vals::pattern_value(t, next_byte);
    let s1 = vals::pattern_value(t, next_byte);
    let s2 = sub_values(&sub_values(v, &s0, t), &s1, t);
    [s0, s1, s2]
}

/// Inputs of the compiled graph in global mode.
pub fn global_inputs(
    types: &[Type],
    owners: &[Owner],
    plain: &[Value],
    share_bytes: &mut dyn FnMut() -> u8,
) -> Vec<Value> {
    let mut out = vec![];
    for i in 0..types.len() {
        match owners[i] {
            Owner::Shared => {
                let s = split_shares(&plain[i], &types[i], share_bytes);
                out.push(Value::from_vector(s.to_vec()));
            }
            _ => out.push(plain[i].clone()),
        }
    }
    out
}

/// Inputs each party supplies in three-party mode: real data where it owns it, junk elsewhere.
pub fn party_inputs(
    types: &[Type],
    owners: &[Owner],
    plain: &[Value],
    share_bytes: &mut dyn FnMut() -> u8,
    junk: &mut dyn FnMut() -> u8,
) -> [Vec<Value>; 3] {
    let mut out: [Vec<Value>; 3] = [vec![], vec![], vec![]];
    for i in 0..types.len() {
        match owners[i] {
            Owner::Public => {
                for p in 0..3 {
                    out[p].push(plain[i].clone());
                }
            }
            Owner::P(q) => {
                for p in 0..3 {
                    if p == q as usize {
                        out[p].push(plain[i].clone());
                    } else {
                        out[p].push(vals::pattern_value(&types[i], junk));
                    }
                }
            }
            Owner::Shared => {
                let s = split_shares(&plain[i], &types[i], share_bytes);
                for p in 0..3 {
                    let mut slots = vec![];
                    for k in 0..3 {
                        if k == p || k == (p + 1) % 3 {
                            slots.push(s[k].clone());
                        } else {
                            slots.push(vals::pattern_value(&types[i], junk));
                        }
                    }
                    out[p].push(Value::from_vector(slots));
                }
            }
        }
    }
    out
}

/// Checks the global-mode output of a compiled graph against the expected plaintext value.
pub fn check_global_output(out: &Value, expected: &Value, t: &Type, outs: &[u8]) -> Result<(), String> {
    if outs.is_empty() {
        let tt = tuple_type(vec![t.clone(), t.clone(), t.clone()]);
        if !vals::layout_ok(out, &tt) {
            return Err(format!("shared output does not have the layout of 3 shares of {}", t));
        }
        let s = out.to_vector().unwrap();
        let sum = vals::add_values(&vals::add_values(&s[0], &s[1], t).unwrap(), &s[2], t).unwrap();
        if &sum != expected {
            return Err(format!(
                "shares add up to {} instead of {}",
                vals::show(&sum, t),
                vals::show(expected, t)
            ));
        }
    } else {
        if !vals::layout_ok(out, t) {
            return Err(format!("revealed output does not have the layout of {}", t));
        }
        if out != expected {
            return Err(format!("revealed {} instead of {}", vals::show(out, t), vals::show(expected, t)));
        }
    }
    Ok(())
}

/// Checks what the parties hold at the output node after a three-party run.
pub fn check_three_output(
    plan: &Plan,
    run: &ThreeRun,
    expected: &Value,
    t: &Type,
    outs: &[u8],
) -> Result<(), String> {
    let o = plan.output;
    if outs.is_empty() {
        // party i must hold share i and share i+1; neighbours agree; the three own shares reconstruct
        let mut own = vec![];
        for p in 0..3 {
            let mine = run.vals[p][o].part(p);
            let next = run.vals[p][o].part((p + 1) % 3);
            let mine_v = match mine.val() {
                Some(v) => v,
                None => {
                    let (n, m) = mine.first_poison().unwrap();
                    return Err(format!("party {} cannot compute its share {} (node {}: {})", p, p, n, m));
                }
            };
            if next.val().is_none() {
                let (n, m) = next.first_poison().unwrap();
                return Err(format!("party {} cannot compute share {} (node {}: {})", p, (p + 1) % 3, n, m));
            }
            if !vals::layout_ok(&mine_v, t) {
                return Err(format!("party {}'s share does not have the layout of {}", p, t));
            }
            own.push(mine_v);
        }
        for p in 0..3 {
            let q = (p + 1) % 3;
            let held = run.vals[p][o].part(q).val().unwrap();
            if held != own[q] {
                return Err(format!("party {}'s copy of share {} differs from party {}'s own", p, q, q));
            }
        }
        let sum = vals::add_values(&vals::add_values(&own[0], &own[1], t).unwrap(), &own[2], t).unwrap();
        if &sum != expected {
            return Err(format!(
                "held shares add up to {} instead of {}",
                vals::show(&sum, t),
                vals::show(expected, t)
            ));
        }
    } else {
        for p in outs.iter() {
            match run.vals[*p as usize][o].val() {
                None => {
                    let (n, m) = run.vals[*p as usize][o].first_poison().unwrap();
                    return Err(format!("output party {} cannot compute the output (node {}: {})", p, n, m));
                }
                Some(v) => {
                    if &v != expected {
                        return Err(format!(
                            "output party {} holds {} instead of {}",
                            p,
                            vals::show(&v, t),
                            vals::show(expected, t)
                        ));
                    }
                }
            }
        }
    }
    if let Some((n, s, r, m)) = run.poisoned_sends.first() {
        // a Send of a value the sender could not compute is only harmless if nothing the outputs need depends on it;
        // it is reported separately by the caller (counted), not as a violation by itself.
        let _ = (n, s, r, m);
    }
    Ok(())
}

/// Global evaluation through E1 (real randomness), returning the output value.
pub fn eval_compiled_global(
    plan: &Plan,
    inputs: &[Value],
    seed: u64,
    oracle: &mut dyn Oracle,
) -> Result<Value, String> {
    let mut ev = new_eval(seed);
    match run_global(plan, inputs, &mut ev, oracle) {
        Ok(v) => Ok(v[plan.output].clone()),
        Err((i, m)) => Err(format!("node {} ({}): {}", i, plan.nodes[i].op, m)),
    }
}

pub fn eval_compiled_three(
    plan: &Plan,
    inputs: &[Vec<Value>; 3],
    seeds: [u64; 3],
    oracle: &mut dyn Oracle,
) -> ThreeRun {
    let mut evs = [new_eval(seeds[0]), new_eval(seeds[1]), new_eval(seeds[2])];
    run_three(plan, inputs, &mut evs, oracle)
}

pub fn pval_is_val(p: &PVal) -> bool {
    p.val().is_some()
}
